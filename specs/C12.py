# C12 - rollbackable allocator returns valid, disjoint, stable blocks.
LEVEL = "proof"
F = "harness/c12_buddy.c"
QG = (12, 6)    # quick: 64 leaves (127 nodes); same code, two #define lines of buddy.h rewritten by a must-fire rule
DEPTH_Q = 12 - 6 + 2
DEPTH_R = 16 - 6 + 2

def tree(name, entry, enforce, desc, loops, canaries=1, sliced=False):
    hs = []
    variants = [("g12_6", QG, ("quick",), 900, 8, (0,), None),
                ("g14_6", (14, 6), ("thorough",), 7200, 16, (0,), None)]
    if sliced:
        variants.append(("real", None, ("thorough",), 14400, 32, (1, 2, 3), "kissat"))
    else:
        variants.append(("real", None, ("thorough",), 7200, 24, (0,), None))
    for tag, geom, tiers, to, mem, slices, solver in variants:
        t, b = geom if geom else (16, 6)
        nodes = 1 << (t - b + 1)
        depth = t - b + 2
        uw = [f"{enforce}.{k}:{depth if enforce != 'buddy_init' else nodes + 1}" for k in range(loops)] + [f"b_wf.0:{nodes + 1}", f"{entry}.0:{nodes + 1}"]
        for sl in slices:
            sfx = "" if sl == 0 else f".slice{sl}"
            what = {0: "", 1: " [slice 1: representation invariant]", 2: " [slice 2: result/placement clauses]", 3: " [slice 3: live-set clauses]"}[sl]
            hs.append(H(name=f"C12.{name}.{tag}{sfx}", file=F, entry=entry, enforce=enforce, funcs=[enforce], geometry=geom,
                        kind="proof" if geom is None else "bounded", defs=(f"C12_SLICE={sl}",),
                        solver=(None if (enforce == "buddy_free" and sl == 3) else solver),
                        bound="" if geom is None else f"reduced arena geometry B_TOTAL_EXP={t}, B_BLOCK_EXP={b} (all well-formed trees of it, all requests)",
                        unwindset=tuple(uw), tiers=tiers, timeout=to, mem_gb=mem, canaries=canaries if sl == 0 else 1, objbits=8,
                        desc=desc + what + " - every well-formed tree, depth loops closed by the constant tree depth (unwinding assertions: complete)"))
    return hs

HARNESSES = (
    [H(name="C12.block_compute", file=F, entry="h_block_compute", funcs=["buddy_allocation_block_compute"], objbits=8,
       desc="size class = smallest power of two >= max(req,64), exact over-size recognition; all 2^64 request sizes (loop-free)")]
    + tree("buddy_init", "h_buddy_init", "buddy_init", "WF and everything free after init", 1)
    + tree("buddy_malloc", "h_buddy_malloc", "buddy_malloc", "WF preserved; NULL iff root < class, then nothing changes; block inside arena, aligned, disjoint from every live block (ghost node), live blocks stay live; frame = longest[] only", 2, canaries=3, sliced=True)
    + tree("buddy_free", "h_buddy_free", "buddy_free", "WF preserved; returns block size; exactly that block dies; space reusable; frame = longest[] only", 2, canaries=2, sliced=True)
    + tree("buddy_realloc", "h_buddy_realloc", "buddy_best_effort_realloc", "assigns nothing; handled only if the block is large enough; else reports the old size", 1, canaries=2)
)
EXPLANATION = ("buddy_init/malloc/free/best_effort_realloc of the real buddy.c are checked against contracts over an abstract view "
               "(WF tree, live blocks, per-node offsets; contracts/buddy.h) for EVERY well-formed allocation tree and every argument. "
               "The quick tier runs them on a 64-leaf geometry obtained by rewriting exactly the two geometry #defines of the "
               "current buddy.h (labelled bounded); the thorough tier runs the same obligations on the real 64 KiB / 64 B geometry "
               "(proof: loops are bounded by the constant tree depth, unwinding assertions on). The multi-arena layer "
               "(rs_malloc/rs_free/rs_realloc/rs_calloc) is in the multi.c harnesses listed separately.")
ASSUMPTIONS = ["pointer given to buddy_free/realloc is the start of a live block of that arena (established by rs_free/rs_realloc's lookup, see multi harnesses)",
               "ROOTSIM_INCREMENTAL is off (as in the default build)"]
LEVEL_TEXT = ("Deductive proof of the tree operations against an abstract-view contract for all well-formed trees: thorough tier on the real "
              "arena geometry (complete: loops bounded by the constant tree depth), quick tier on a reduced geometry (labelled bounded).")
LEVEL_NOTE = "Trusted: CBMC; callers pass size classes in [6,16] and pointers to live blocks; quick tier geometry reduced by a must-fire rewrite of two #define lines."
TECHNIQUE = "CBMC function contracts (dfcc) with abstract view + representation invariant on the real buddy.c"
DESIGN_REF = "DESIGN.md §4 C12"

# ---- multi-arena layer (rs_malloc / rs_free / rs_realloc / rs_calloc) on a reduced geometry with the real buddy.c
FM = "harness/c12_multi.c"
def multi(name, entry, desc, geom, tiers, to=1800, canaries=2, pid="C12"):
    t, b = geom
    nodes = 1 << (t - b + 1)
    tot = 1 << t
    big = max(nodes, tot) * 3 + 4
    fns = ["rs_malloc", "rs_calloc", "rs_free", "rs_realloc", "buddy_find_by_address", "model_allocator_checkpoint_take", "model_allocator_checkpoint_restore",
           "buddy_malloc", "buddy_free", "buddy_init", "buddy_best_effort_realloc", "checkpoint_full_take", "checkpoint_full_restore"]
    uw = [f"{entry}.{k}:{big}" for k in range(12)] + [f"b_wf.0:{nodes + 1}", f"b_wf_lon.0:{nodes + 1}", f"b_alloc_bytes.0:{nodes + 1}", "mm_expected_size.0:5", "mm_arenas_ok.0:5",
          "free.0:10", f"memcpy.0:{tot + 18}", f"memmove.0:40", f"memmove.1:40", f"memset.0:{tot + 2}",
          "rs_malloc.0:5", "rs_malloc.1:5", "rs_malloc.2:3", "rs_malloc.3:3",
          f"buddy_malloc.0:{t - b + 2}", f"buddy_malloc.1:{t - b + 2}", f"buddy_free.0:{t - b + 2}", f"buddy_free.1:{t - b + 2}", f"buddy_init.0:{nodes + 2}",
          f"buddy_best_effort_realloc.0:{t - b + 2}", "buddy_find_by_address.0:4", "rs_free.0:4", "rs_realloc.0:4", "rs_realloc.1:4",
          "model_allocator_checkpoint_take.0:3", "model_allocator_checkpoint_take.1:5", "model_allocator_checkpoint_restore.0:4", "model_allocator_checkpoint_restore.1:5", "model_allocator_checkpoint_restore.2:4",
          f"checkpoint_full_take.0:{t - b + 3}", f"checkpoint_full_take.1:{nodes + nodes // 2 + 3}", f"checkpoint_full_restore.0:{t - b + 3}", f"checkpoint_full_restore.1:{nodes + nodes // 2 + 3}"]
    return H(name=f"{pid}.{name}.g{t}_{b}", file=FM, entry=entry, funcs=fns, geometry=geom, kind="bounded",
             bound=f"at most 2 arenas of reduced geometry B_TOTAL_EXP={t}, B_BLOCK_EXP={b}; all well-formed trees, all contents, all request sizes",
             unwindset=tuple(uw), tiers=tiers, timeout=to, mem_gb=16, canaries=canaries, objbits=8, desc=desc)
MULTI = [
    multi("rs_malloc", "h_rs_malloc", "size 0 -> NULL, nothing changed; over-size -> NULL, ENOMEM, nothing changed; otherwise a block inside allocator memory, large enough, disjoint from every live block, live blocks stay live, no arena byte altered, INV_MM (checkpoint size accounting) preserved, growth to a new arena", (5, 2), ("quick", "thorough")),
    multi("rs_free", "h_rs_free", "the block dies, others stay, space reusable, INV_MM preserved; the arena lookup finds the arena holding the pointer", (5, 2), ("quick", "thorough")),
    multi("rs_realloc", "h_rs_realloc", "common prefix preserved (ghost byte), old block released when moved, INV_MM preserved", (4, 1), ("quick",)),
    multi("rs_realloc", "h_rs_realloc", "common prefix preserved (ghost byte), old block released when moved, INV_MM preserved", (5, 2), ("thorough",), to=3600),
    multi("rs_calloc", "h_rs_calloc", "zeroed memory; zero-size, over-size and OVERFLOWING nmemb*size requests fail (element sizes sampled, count symbolic)", (4, 1), ("quick", "thorough")),
]
HARNESSES = tuple(HARNESSES) + tuple(MULTI)
