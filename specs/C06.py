# C06 - cancellation is exactly-once: per-step contracts of process.c on bounded histories.
LEVEL = "other"
F = "harness/c06_process.c"
NHQ, NHT = 4, 5
def P(name, entry, desc, nh, tiers, canaries=1, to=900, defs_extra=(), **kw):
    n = nh + 4
    uw = [f"{entry}.{k}:{max(n, 2 * n) + 2}" for k in range(10)] + [
        f"idx.0:{n + 1}", f"idx_pl.0:{n + 1}", f"ghosts_reset.0:{n + 1}", "ghosts_reset.1:%d" % 14, "memmove.0:%d" % ((nh + 4) * 8 + 2),
        f"send_anti_messages.0:{nh + 2}", f"send_anti_messages.1:{nh + 2}", f"silent_execution.0:{nh + 2}", f"silent_execution.1:{nh + 2}",
        f"match_straggler_msg.0:{nh + 2}", f"match_anti_msg.0:{nh + 2}", f"match_anti_msg.1:{nh + 2}",
        f"process_msg.0:{nh + 2}", f"process_msg.1:{nh + 2}", f"process_msg.2:{nh + 2}", f"process_msg.3:{nh + 2}", f"process_msg.4:{nh + 2}",
        f"process_msg.5:{nh + 2}", f"process_msg.6:{nh + 2}", f"process_msg.7:{nh + 2}", f"process_msg.8:{nh + 2}",
        f"do_rollback.0:{nh + 2}", f"do_rollback.1:{nh + 2}", f"do_rollback.2:{nh + 2}", f"do_rollback.3:{nh + 2}",
        f"handle_anti_msg.0:{nh + 2}", f"handle_anti_msg.1:{nh + 2}", f"handle_anti_msg.2:{nh + 2}", f"handle_anti_msg.3:{nh + 2}", f"handle_anti_msg.4:{nh + 2}", f"handle_anti_msg.5:{nh + 2}",
        f"handle_straggler_msg.0:{nh + 2}", f"handle_straggler_msg.1:{nh + 2}", f"handle_straggler_msg.2:{nh + 2}", f"handle_straggler_msg.3:{nh + 2}",
        f"fossil_lp_collect.0:{nh + 2}", f"fossil_lp_collect.1:{nh + 2}", f"fossil_lp_collect.2:{nh + 2}", f"process_lp_fini.0:{nh + 2}",
        f"handle_remote_anti_msg.0:{nh + 2}", f"handle_remote_anti_msg.1:{nh + 2}", f"handle_remote_anti_msg.2:{nh + 2}", f"handle_remote_anti_msg.3:{nh + 2}",
        f"check_early_anti_messages.0:{nh + 2}", "memcmp.0:3"] + [f"h_remote_anti.{k}:{n + 2}" for k in range(10, 14)] + [f"h_early_anti.{k}:{n + 2}" for k in range(10, 14)]
    return H(name=f"{name}.nh{nh}", file=F, entry=entry, funcs=kw.pop("funcs"), kind="bounded", defs=(f"NH={nh}",) + tuple(defs_extra),
             bound=f"history of at most {nh} entries (any mix of processed / locally sent / remotely sent, any admissible flag words)",
             unwindset=tuple(uw), tiers=tiers, timeout=to, mem_gb=12, canaries=canaries, desc=desc, **kw)

def fam(nh, tiers):
    return [
    P("C06.send_anti_messages", "h_send_anti", "per ghost slot: local send -> ANTI added once, re-queued iff PROCESSED was set; remote send -> one anti-message + one deferred release; undone event -> PROCESSED removed once, re-queued unless ANTI; nothing released; history cut at past_i; earlier slots untouched; STATS counters", nh, tiers, canaries=3, funcs=["send_anti_messages"]),
] + [
    P(f"C06.process_msg.word{w}", "h_process_msg", f"dispatch on the previous flag word == {w} ({what}): " + "cancelled => never dispatched, released once, rollback iff it had been processed; valid => dispatched once, appended, PROCESSED set once, straggler rollback iff it precedes the last processed event; termination hooks called with the right time (do_rollback by contract)",
      nh, tiers, canaries=1 if w == 1 else 2, funcs=["process_msg", "handle_anti_msg", "handle_straggler_msg", "match_anti_msg", "match_straggler_msg"],
      replace=("do_rollback",), defs_extra=("PM_MODULAR", f"PM_CASE={w}"))
    for w, what in ((0, "fresh valid event"), (1, "cancelled before being processed"), (3, "cancelled after being processed"))
] + [
    P("C06.check_early_anti_messages", "h_early_anti", "early remote anti-messages (<= 3 pending): annihilation iff the full (id, seq) pair matches; exactly the matched node is unlinked and released, every other pending anti-message stays in order; the event is released iff annihilated", nh, tiers, canaries=2, funcs=["check_early_anti_messages"]),
    P("C06.handle_remote_anti_msg", "h_remote_anti", "remote anti-message: found in the history -> one rollback to the start of its group, both buffers released once, termination told; not found -> parked, nothing released (do_rollback by contract)", nh, tiers, canaries=2, funcs=["handle_remote_anti_msg"], replace=("do_rollback",), defs_extra=("PM_MODULAR",)),
    P("C06.match_anti_msg", "h_match_anti", "rollback point = start of the group of the cancelled event (event boundary, nothing else undone needlessly)", nh, tiers, canaries=2, funcs=["match_anti_msg"]),
    P("C06.schedule", "h_schedule", "ScheduleNewEvent outside silent mode: one buffer, queued or sent once, recorded with the right tag", nh, tiers, funcs=["ScheduleNewEvent"]),
    P("C06.process_lp_fini", "h_lp_fini", "shutdown of an LP: each processed / remote entry released once, locally sent and cancelled-and-requeued ones not", nh, tiers, funcs=["process_lp_fini"]),
    P("C06.fossil_history", "h_fossil", "released prefix: non-locally-sent buffers released once, locally-sent ones not touched, kept part untouched", nh, tiers, canaries=2, funcs=["fossil_lp_collect"]),
    ]
REMOTE = [
    H(name="C06.remote_ids", file="harness/c06_remote.c", entry="h_remote_ids", funcs=["gvt_remote_msg_send", "gvt_remote_anti_msg_send", "gvt_remote_msg_receive", "gvt_remote_anti_msg_receive"],
      kind="proof", timeout=600, mem_gb=8, flags=("--arrays-uf-always",), desc="loop-free, all (rank, thread, colour, sequence) values: remote words are > 3; identifiers of different sender threads differ; the anti-message carries exactly its event's (id, seq); colours are counted on the right side"),
    H(name="C06.size_classes", file="harness/c06_remote.c", entry="h_size_classes", funcs=["msg_remote_size", "msg_remote_anti_size"], kind="proof", timeout=300,
      desc="sizeof(ctrl) < anti size < event size for every payload size; receive-side payload size inverts msg_remote_size"),
]
HARNESSES = REMOTE + fam(NHQ, ("quick",)) + fam(NHT, ("thorough",))
EXPLANATION = "Each STEP of the cancellation protocol is decided on the real process.c/fossil.c for every well-formed history of bounded length and every admissible flag word: send_anti_messages (per ghost slot: ANTI added once / re-queued iff PROCESSED; one remote anti-message and one deferred release; PROCESSED removed once / re-queued unless ANTI; nothing released; cut at past_i), process_msg's dispatch on the previous word (cancelled => never dispatched, released once, rollback iff it had been processed; otherwise dispatched once and appended), match_anti_msg, ScheduleNewEvent's tagging, and the release points (process_lp_fini, fossil_lp_collect, msg_queue_fini in C15). The cross-thread exactly-once conclusion over all interleavings is a rely/guarantee argument written in DESIGN.md - an UNCHECKED assumption. Remote early-anti matching and MPI id stamping are not yet covered by a harness."
ASSUMPTIONS = ['history length <= 4 (quick) / 5 (thorough); flag words restricted to those the protocol can produce (rely/guarantee table in DESIGN.md)', 'queues, MPI, message allocator, model allocator, statistics, termination module: ghost-counting environment stubs', 'composition across threads/ranks not machine-checked']
LEVEL_TEXT = 'Bounded contract checks of every protocol step on the real process.c (all histories up to the bound, all admissible flag words, ghost counters per message); the composition across threads is a documented, unchecked rely/guarantee argument.'
LEVEL_NOTE = 'Trusted: CBMC; C11 atomics as sequentially consistent single-word operations; bounds and stubs as stated; no interleavings.'
TECHNIQUE = 'CBMC bounded harness lemmas with ghost counters per message on the real process.c / fossil.c'
DESIGN_REF = "DESIGN.md §4 C06"
