# C05 - rollback restores the exact LP state.
LEVEL = 'other'
FC = "harness/c05_ckpt.c"

def ck(name, entry, enforce, desc, geoms, canaries=1, extra_uw=()):
    hs = []
    for (t, b), tiers, to in geoms:
        nodes = 1 << (t - b + 1)
        tot = 1 << t
        # buddy_tree_visit: one while(1) loop visiting at most every node once on the way down and once on the way up
        walk = nodes + (nodes // 2) + 3   # every inner node is entered at most twice, every leaf once
        fn = enforce or entry
        climb = t - b + 3
        uw = [f"checkpoint_full_take.0:{climb}", f"checkpoint_full_take.1:{walk}", f"checkpoint_full_restore.0:{climb}", f"checkpoint_full_restore.1:{walk}",
              f"b_wf.0:{nodes + 1}", f"b_wf_lon.0:{nodes + 1}", f"b_alloc_bytes.0:{nodes + 1}", f"b_ckpt_pos.0:{nodes + 1}"] + \
             [f"{entry}.{k}:{max(nodes, tot) + 2}" for k in range(8)] + [f"memcpy.0:{max(nodes, tot) + 2}"] + list(extra_uw)
        hs.append(H(name=f"C05.{name}.g{t}_{b}", file=FC, entry=entry, enforce=enforce, funcs=[enforce] if enforce else ["checkpoint_full_take", "checkpoint_full_restore"],
                    geometry=(t, b), kind="bounded", bound=f"reduced arena geometry B_TOTAL_EXP={t}, B_BLOCK_EXP={b}: all well-formed trees, all arena contents",
                    unwindset=tuple(uw), tiers=tiers, timeout=to, mem_gb=16, canaries=canaries, objbits=8, desc=desc,
                    fallback_unwind=walk + 6))
    return hs

G_Q = [((4, 1), ("quick", "thorough"), 900)]
G_T = [((5, 2), ("thorough",), 3600)]
HARNESSES = (
    ck("ckpt_round_trip", "h_round_trip", None, "real take, arbitrary clobbering of tree and memory, real restore: tree identical, every byte of every live block identical, cursor identical", G_Q + G_T, canaries=2)
    + ck("ckpt_take", "h_take", "checkpoint_full_take", "contract: returns buf+hdr+alloc_bytes, writes exactly that range, stores every live byte at its address-ordered position, arena untouched", G_Q + G_T)
    + ck("ckpt_restore", "h_restore", "checkpoint_full_restore", "contract: foreign record -> NULL and nothing assigned; own record -> tree and live bytes restored, cursor advanced by hdr+alloc_bytes", G_Q + G_T, canaries=2)
)
EXPLANATION = 'Rollback = history cut + anti-messages (C06) + allocator restore + coast-forward. Decided here on the real code: (1) one-arena checkpoint take/restore (ckpt.c) against contracts over the abstract view of the arena: the take stores every byte of every live block at its address-ordered position and returns header+alloc_bytes; restore refuses a foreign record without touching anything and otherwise restores the tree and every live byte; take-clobber-restore round trip on the real functions - all on a reduced arena geometry (8 leaves; the DFS macro is unwound completely), labelled bounded; (2) silent_execution / do_rollback / match_straggler_msg of process.c on every well-formed history of bounded length: exactly the events in [restored checkpoint, rollback point) are re-executed, in order, once, silently (a scheduling model emits nothing), the history is cut before the restore, the rollback point is an event boundary and undoes exactly the events the straggler precedes. The RNG stream half is C09 (frame + function of state) plus lp_init placing the state in rollbackable memory. Not decided: the multi-arena restore loop beyond the bounds stated, and that every history/checkpoint pair arising at run time satisfies the preconditions (history well-formedness is an invariant argued in DESIGN.md).'
ASSUMPTIONS = ['reduced arena geometry for tree walks (two #define lines of buddy.h rewritten by a must-fire rule)', 'history length bounded (4 quick / 5 thorough); allocator restore/collect replaced by their contracts in the process.c harnesses', 'ROOTSIM_INCREMENTAL off']
LEVEL_TEXT = 'Contract-based checks on the real ckpt.c / process.c: exact state restoration per arena on an 8-leaf geometry (all trees, all contents) and exact coast-forward/rollback orchestration on all histories of bounded length. Bounded, hence category other.'
LEVEL_NOTE = 'Trusted: CBMC; bounds as stated; memcpy as an exact byte loop; environment of process.c (queues, MPI, allocator, stats, termination) as ghost-counting stubs.'
TECHNIQUE = 'CBMC function contracts with abstract arena view (dfcc) + bounded harness lemmas with ghost counters on the real ckpt.c/process.c'
DESIGN_REF = "DESIGN.md §4 C05"

# ---- LP level: coast-forward and rollback orchestration in process.c (bounded histories), shared harness file with C06
import importlib.util as _ilu, os as _os
_sp = _ilu.spec_from_file_location("spec_C06_for_C05", _os.path.join(_os.path.dirname(__file__), "C06.py"))
_m = _ilu.module_from_spec(_sp); _m.H = H; _sp.loader.exec_module(_m)
def lp_fam(nh, tiers):
    return [
    _m.P("C05.silent_execution", "h_silent", "coast-forward re-executes exactly the processed entries in [last_i, past_i), in order, once each, with the silent flag raised and lowered afterwards; ScheduleNewEvent during it emits nothing", nh, tiers, canaries=2, funcs=["silent_execution", "ScheduleNewEvent"]),
    _m.P("C05.do_rollback", "h_do_rollback", "anti-messages, then restore to the newest checkpoint not after past_i (allocator by its contract), then coast-forward over exactly [checkpoint, past_i); history cut first; counters", nh, tiers, funcs=["do_rollback"]),
    _m.P("C05.match_straggler_msg", "h_match_straggler", "rollback point for a straggler: an event boundary; exactly the processed events the straggler precedes are undone", nh, tiers, canaries=2, funcs=["match_straggler_msg"]),
    ]
HARNESSES = HARNESSES + lp_fam(4, ("quick",)) + lp_fam(5, ("thorough",))

# ---- lp_init places the generator state in rollbackable memory (so that a restore rewinds the random stream)
_sp14 = _ilu.spec_from_file_location("spec_C14_for_C05", _os.path.join(_os.path.dirname(__file__), "C14.py"))
_m14 = _ilu.module_from_spec(_sp14); _m14.H = H; _sp14.loader.exec_module(_m14)
def _lp_init(tier, lps, nodes, threads):
    hs = _m14.mk(tier, lps, nodes, threads, 1200, which=(1,))
    for h in hs:
        h["name"] = h["name"].replace("C14.", "C05.")
        h["desc"] = "lp_init: the generator context is obtained from rs_malloc (the LP's own rollbackable allocator) after the allocator is initialised, and seeded with the global LP id - so a checkpoint restore rewinds the random stream (with C09: RandomU64 is a function of that state only)"
    return hs
HARNESSES = HARNESSES + _lp_init("quick", 9, 2, 5) + _lp_init("thorough", 16, 4, 4)

# ---- multi-arena checkpoint take / restore (multi.c with the real ckpt.c and buddy.c, reduced geometry)
_sp12 = _ilu.spec_from_file_location("spec_C12_for_C05", _os.path.join(_os.path.dirname(__file__), "C12.py"))
_m12 = _ilu.module_from_spec(_sp12); _m12.H = H; _sp12.loader.exec_module(_m12)
FMM = "harness/c05_multi_modular.c"
_UWM = tuple([f"{e}.{k}:10" for e in ("h_take_modular", "h_take_restore_modular") for k in range(12)] + [f"h_lp_fini_modular.{k}:10" for k in range(8)] + ["model_allocator_lp_fini.0:5", "model_allocator_lp_fini.1:6"] + ["aidx.0:6", "expected_size.0:6", "free.0:10", "memcpy.0:6", "memmove.0:50",
             "model_allocator_checkpoint_take.0:6", "model_allocator_checkpoint_take.1:6", "model_allocator_checkpoint_restore.0:6", "model_allocator_checkpoint_restore.1:6", "model_allocator_checkpoint_restore.2:5"])
HARNESSES = HARNESSES + [
    H(name="C05.multi_take.modular", file=FMM, entry="h_take_modular", funcs=["model_allocator_checkpoint_take"], kind="bounded", bound="<= 3 arenas (any numbers of live bytes); per-arena functions by their contracts (executable stubs)",
      unwindset=_UWM, timeout=900, mem_gb=12, canaries=2, objbits=8, geometry=(4, 1),
      desc="under INV_MM the buffer of exactly full_ckpt_size bytes (CBMC malloc of that size) holds every arena record and the end marker: no write past it; every arena saved once; log gains (ref_i, ckpt)"),
    H(name="C05.multi_take_restore.modular", file=FMM, entry="h_take_restore_modular", funcs=["model_allocator_checkpoint_take", "model_allocator_checkpoint_restore"], kind="bounded",
      bound="<= 3 arenas in total, any split between arenas existing at the checkpoint and created after it", unwindset=_UWM, timeout=900, mem_gb=12, canaries=2, objbits=8, geometry=(4, 1),
      desc="records go back to their own arenas, arenas created after the checkpoint are re-initialised, INV_MM (size accounting incl. new arenas) holds again"),
]
HARNESSES = HARNESSES + [
    _m12.multi("restore_scan", "h_restore_scan", "model_allocator_checkpoint_restore log scan (<= 3 logs, arbitrary non-decreasing references, any target): the newest checkpoint not after the target is used, the table is cut right after it, later checkpoints are released once each, full_ckpt_size taken from it",
                (4, 1), ("quick", "thorough"), to=900, pid="C05"),
]

# (an invariant-based version of the restore scan for tables of symbolic length was attempted and dropped: the function
#  dereferences the selected slot's checkpoint pointer, and 'every slot holds a valid pointer' is a forall-hypothesis that the
#  ghost-index technique cannot supply - see DESIGN.md 7.7; the bounded restore_scan harness above stands in)
