# C18 - numerical library contracts hold for every generator state.
LEVEL = "proof"
F = "harness/c18_random.c"

def R(name, entry, enforce, desc, kind="proof", bound="", replace=("Random",), **kw):
    return H(name="C18." + name, file=F, entry=entry, enforce=enforce, replace=replace, funcs=[enforce], kind=kind, bound=bound,
             desc=desc, float_checks=False, **kw)

HARNESSES = [
    R("RandomU64", "h_RandomU64", "RandomU64", "frame = the calling LP's generator; no UB for all 2^256 states", replace=()),
    R("Random", "h_Random", "Random", "defined (no UB, incl. raw output 1 -> 64-bit shift) and in [0,1) for all 2^64 raw outputs; frame",
      replace=(), canaries=3),
    R("RandomRange", "h_RandomRange", "RandomRange", "result in [min,max]; Random() by contract (any double in [0,1))",
      kind="bounded", bound="max-min+1 <= 64 (quick) : the double multiply is undecided at full int width on every installed back end",
      defs=("C18_WIDTH=64",), timeout=900, tiers=("quick",)),
    R("RandomRange.w4096", "h_RandomRange", "RandomRange", "result in [min,max]; width <= 4096",
      kind="bounded", bound="max-min+1 <= 4096", defs=("C18_WIDTH=4096",), timeout=3000, mem_gb=16, tiers=("thorough",)),
    R("RandomRangeNonUniform", "h_RandomRangeNonUniform", "RandomRangeNonUniform", "stays in [min,max] for 0<=min<=max, x>=0; RandomRange by contract",
      replace=("RandomRange",)),
    R("Poisson", "h_Poisson", "Poisson", "finite and non-negative; Random by contract, log by assumed libm contract"),
    R("Gamma.ge6", "h_Gamma", "Gamma", "ia >= 6: finite and non-negative after the rejection loops (loop contracts; partial correctness)",
      loops=True, expect_loops=2, timeout=900, mem_gb=12),
    R("Gamma.lt6", "h_Gamma", "Gamma", "ia < 6: product of at most 5 factors in [2^-53,1] cannot underflow (loop invariant + decreases)",
      defs=("C18_GAMMA_DIRECT",), loops=True, expect_loops=1, timeout=900, mem_gb=12),
    R("Zipf", "h_Zipf", "Zipf", "result in [1,limit], conversion to unsigned defined (loop contract; pow/floor by libm contracts)",
      loops=True, expect_loops=1, timeout=900),
    R("Normal", "h_Normal", "Normal", "frame = the calling LP's generator (loop contract)", loops=True, expect_loops=1),
]
EXPLANATION = ("Each public function of random.c is checked against its contract (contracts/random.h) on the real #included text. "
               "Random()/RandomU64() are loop-free: all generator states, hence all 2^64 raw outputs. Callers use Random() through its "
               "contract only (any double in [0,1)), so their postconditions hold for every generator state as well. Rejection loops "
               "carry loop contracts through the VERIF_LOOP hooks (partial correctness; termination is probabilistic). libm is assumed "
               "(stubs/libm.h: sign/finiteness facts only). RandomRange's range clause needs a double multiplication and is decided "
               "only for a bounded width (stated per harness) - labelled bounded.")
ASSUMPTIONS = ["libm log/exp/sqrt/pow: IEEE sign and finiteness facts only (stubs/libm.h); floor: CBMC's exact model",
               "documented argument domains: RandomRange min<=max with max-min+1 representable; RandomRangeNonUniform 0<=min<=max, x>=0; Zipf skew>0 finite, limit>=1",
               "termination of rejection-sampling loops is not proved"]
LEVEL_TEXT = ("Deductive proof per function over all generator states (Random loop-free: all 2^64 raw outputs); rejection loops by loop "
              "contracts (partial correctness); RandomRange width-bounded (labelled bounded); libm assumed.")
LEVEL_NOTE = "Trusted: CBMC floating-point semantics (IEEE-754 round-to-nearest), assumed libm contracts, documented argument domains."
TECHNIQUE = "CBMC function + loop contracts (dfcc) on the real random.c; callee Random() replaced by its contract"
DESIGN_REF = "DESIGN.md §4 C18"
