/* /verif shadow of <immintrin.h> for goto-cc only: the repository uses exactly _mm_pause() (spin_pause) and
 * __rdtsc() (timer_hr_new) from the x86 intrinsics; parsing the full intrinsic headers costs ~10 s per harness.
 * VERIF_STUB: _mm_pause is a no-op hint; __rdtsc returns an arbitrary monotone-free value (timers are statistics only). */
#ifndef VERIF_SHADOW_IMMINTRIN_H
#define VERIF_SHADOW_IMMINTRIN_H
static inline void _mm_pause(void) {}
unsigned long long nondet_verif_rdtsc(void);
static inline unsigned long long verif_rdtsc(void) { return nondet_verif_rdtsc(); }
#ifndef __rdtsc
#define __rdtsc() verif_rdtsc()
#endif
#endif
