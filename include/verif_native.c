/* verif_native.c - native replay support: feeds the harness inputs recorded from a CBMC counterexample.
 * Input file: one line per value, "<name> <hex bytes, little endian>" or "<name>[<i>] <hex bytes>".
 * Names that do not appear are zero-filled and reported (CBMC leaves don't-care inputs out of the trace). */
#include <stdint.h>
#include <stdio.h>
#include <stdlib.h>
#include <string.h>

int verif_failed;

#define MAXV 70000
static struct {
	char *name;
	unsigned char *bytes;
	size_t n;
} vals[MAXV];
static size_t n_vals;

static void verif_load(const char *path)
{
	FILE *f = fopen(path, "r");
	if(!f) {
		fprintf(stderr, "cannot open replay inputs %s\n", path);
		exit(4);
	}
	static char line[1 << 16];
	while(fgets(line, sizeof(line), f)) {
		char *sp = strchr(line, ' ');
		if(!sp || n_vals >= MAXV)
			continue;
		*sp = 0;
		char *hex = sp + 1;
		size_t hl = strcspn(hex, "\r\n");
		vals[n_vals].name = strdup(line);
		vals[n_vals].n = hl / 2;
		vals[n_vals].bytes = malloc(hl / 2 + 1);
		for(size_t i = 0; i < hl / 2; i++) {
			unsigned b;
			sscanf(hex + 2 * i, "%2x", &b);
			vals[n_vals].bytes[i] = (unsigned char)b;
		}
		n_vals++;
	}
	fclose(f);
}

static int lookup(const char *name, void *p, size_t sz)
{
	for(size_t i = 0; i < n_vals; i++)
		if(!strcmp(vals[i].name, name)) {
			memset(p, 0, sz);
			memcpy(p, vals[i].bytes, vals[i].n < sz ? vals[i].n : sz);
			return 1;
		}
	return 0;
}

void verif_in(const char *name, void *p, size_t sz)
{
	if(!lookup(name, p, sz)) {
		memset(p, 0, sz);
		printf("REPLAY-INPUT-DEFAULTED %s\n", name);
	}
}

void verif_in_arr(const char *name, void *p, size_t elsz, size_t n)
{
	char buf[256];
	memset(p, 0, elsz * n);
	for(size_t i = 0; i < n; i++) {
		snprintf(buf, sizeof(buf), "%s[%zu]", name, i);
		lookup(buf, (char *)p + i * elsz, elsz);
	}
}

void HARNESS(void);

int main(int argc, char **argv)
{
	if(argc > 1)
		verif_load(argv[1]);
	HARNESS();
	if(verif_failed) {
		puts("REPLAY-RESULT fail");
		return 1;
	}
	puts("REPLAY-RESULT pass");
	return 0;
}
