# C13 - fossil collection never discards what a legal rollback can need.
LEVEL = "proof"
def collect(cap, tiers, to):
    return H(name=f"C13.alloc_collect.len{cap}", file="harness/c13_fossil.c", entry="h_fossil_collect", enforce="model_allocator_fossil_lp_collect",
      funcs=["model_allocator_fossil_lp_collect", "array_truncate_first"], loops=True, expect_loops=3, kind="proof", canaries=2,
      defs=(f"C13_MAXCAP={cap}U",), tiers=tiers,
      unwindset=("h_fossil_collect.0:10",), timeout=to, mem_gb=16, objbits=8,
      desc=f"log table of symbolic length (count <= capacity <= {cap}, arbitrary content), NO unwinding of the table loops: returns the reference of the first kept slot, <= target; every later slot > target (newest such checkpoint); >= 1 slot kept; kept slots shifted and rebased (ghost slot); number of releases == number of dropped slots; frame = log table only. Loops closed by ghost-index invariants + decreases (termination proved)")
BOUNDED = H(name="C13.alloc_collect.le4", file="harness/c13_fossil.c", entry="h_fossil_collect", enforce="model_allocator_fossil_lp_collect",
      funcs=["model_allocator_fossil_lp_collect", "array_truncate_first"], kind="bounded", bound="log table of at most 4 slots, loops unwound, exact memmove, CBMC's real free()",
      canaries=2, defs=("C13_BOUNDED", "C13_MAXCAP=4U"),
      unwindset=("h_fossil_collect.0:10", "model_allocator_fossil_lp_collect.0:6", "model_allocator_fossil_lp_collect.1:6", "model_allocator_fossil_lp_collect.2:6", "model_allocator_fossil_lp_collect.3:6", "memmove.0:66", "free.0:17", "was_released.0:17"),
      timeout=900, mem_gb=16, objbits=8,
      desc="same contract on every table of <= 4 slots with distinct live checkpoints: additionally every dropped checkpoint is released exactly once (double free = CBMC error) and no kept one is")
HARNESSES = [BOUNDED, collect(1024, ("thorough",), 3600)]
EXPLANATION = "x"
ASSUMPTIONS = []
LEVEL_TEXT = "x"
LEVEL_NOTE = "x"
TECHNIQUE = "x"
DESIGN_REF = "DESIGN.md §4 C13"
