/* C18 / C09 / C11 - numerical library: harnesses for src/lib/random/random.c (real text #included). */
#include "verif_harness.h"
#include "stubs/libm.h"
#include "lib/random/random.c"
#ifndef VERIF_NATIVE
#include "contracts/random.h"
#else
#include <float.h>
#include <limits.h>
#endif

struct simulation_configuration global_config;
__thread struct lp_ctx *current_lp;
#ifdef VERIF_NATIVE
#include "lib/random/xxtea.c"
#endif

static struct lp_ctx the_lp, other_lp;
static struct rng_ctx the_ctx, other_ctx;

#ifndef C18_WIDTH
#define C18_WIDTH 64
#endif

/* an arbitrary generator state for the calling LP, and a second LP whose generator must never be touched */
#define RNG_SETUP()                                                                                                    \
	VIN_ARR(uint64_t, in_state, 4);                                                                                \
	VIN_ARR(uint64_t, in_other, 4);                                                                                \
	for(int k_ = 0; k_ < 4; k_++) {                                                                                \
		the_ctx.state[k_] = in_state[k_];                                                                      \
		other_ctx.state[k_] = in_other[k_];                                                                    \
	}                                                                                                              \
	the_lp.rng_ctx = &the_ctx;                                                                                     \
	other_lp.rng_ctx = &other_ctx;                                                                                 \
	current_lp = &the_lp
#define OTHER_UNTOUCHED(tag)                                                                                           \
	VASSERT(other_ctx.state[0] == in_other[0] && other_ctx.state[1] == in_other[1] &&                              \
		    other_ctx.state[2] == in_other[2] && other_ctx.state[3] == in_other[3],                            \
	    tag " another LP's generator is not advanced")

void h_RandomU64(void)
{
	RNG_SETUP();
	uint64_t r = RandomU64();
	(void)r;
	OTHER_UNTOUCHED("C18.RandomU64");
	VCANARY("h_RandomU64 reachable");
}

void h_Random(void)
{
	RNG_SETUP();
	double r = Random();
	VASSERT(r >= 0.0 && r < 1.0, "C18.Random lies in [0,1) for every generator state");
	OTHER_UNTOUCHED("C18.Random");
	VCANARY("h_Random reachable");
	VCOVER(r == 0.0, "h_Random covers raw output 0");
	VCOVER(r > 0.0 && r < 1e-19, "h_Random covers raw output 1 (64-bit shift case)");
}

void h_RandomRange(void)
{
	RNG_SETUP();
	VIN(int, min);
	VIN(int, max);
	VASSUME(min <= max && (long)max - (long)min + 1 <= C18_WIDTH);
	int r = RandomRange(min, max);
	VASSERT(min <= r && r <= max, "C18.RandomRange lies in [min,max]");
	OTHER_UNTOUCHED("C18.RandomRange");
	VCANARY("h_RandomRange reachable");
}

void h_RandomRangeNonUniform(void)
{
	RNG_SETUP();
	VIN(int, x);
	VIN(int, min);
	VIN(int, max);
#ifdef VERIF_NATIVE
	VASSUME(0 <= x && x < INT_MAX && 0 <= min && min <= max && (long)max - (long)min + 1 <= INT_MAX);
#endif
	int r = RandomRangeNonUniform(x, min, max);
	VASSERT(min <= r && r <= max, "C18.RandomRangeNonUniform stays in [min,max]");
	VCANARY("h_RandomRangeNonUniform reachable");
}

void h_Poisson(void)
{
	RNG_SETUP();
	double r = Poisson();
	VASSERT(r >= 0.0 && r <= DBL_MAX, "C18.Poisson finite and non-negative");
	VCANARY("h_Poisson reachable");
}

void h_Gamma(void)
{
	RNG_SETUP();
	VIN(unsigned, ia);
#ifdef C18_GAMMA_DIRECT
	VASSUME(ia < 6);
#else
	VASSUME(ia >= 6);
#endif
	double r = Gamma(ia);
	VASSERT(r >= 0.0 && r <= DBL_MAX, "C18.Gamma finite and non-negative");
	VCANARY("h_Gamma reachable");
}

void h_Zipf(void)
{
	RNG_SETUP();
	VIN(double, skew);
	VIN(unsigned, limit);
#ifdef VERIF_NATIVE
	VASSUME(skew > 0.0 && skew <= DBL_MAX && limit >= 1);
#endif
	unsigned r = Zipf(skew, limit);
	VASSERT(1 <= r && r <= limit, "C18.Zipf lies in [1,limit]");
	VCANARY("h_Zipf reachable");
}

void h_Normal(void)
{
	RNG_SETUP();
	double r = Normal();
	(void)r;
	OTHER_UNTOUCHED("C18.Normal");
	VCANARY("h_Normal reachable");
}

/* ------------------------------------------------------------------------------------------------ C09: RNG half */

/* RandomU64: next state and output are a function of the generator state only (self-composition); everything else
 * the runtime keeps per thread / rank is havocked between the two runs */
extern __thread rid_t rid;
__thread rid_t rid;
nid_t nid, n_nodes;
uint64_t lid_node_first;
lp_id_t n_lps_node;

void h_RandomU64_function_of_state(void)
{
	RNG_SETUP();
	VIN(rid_t, rid1);
	VIN(rid_t, rid2);
	VIN(nid_t, nid1);
	VIN(nid_t, nid2);
	VIN(uint64_t, seed1);
	VIN(uint64_t, seed2);
	rid = rid1;
	nid = nid1;
	global_config.prng_seed = seed1;
	uint64_t r1 = RandomU64();
	uint64_t s1[4] = {the_ctx.state[0], the_ctx.state[1], the_ctx.state[2], the_ctx.state[3]};
	/* re-bound run, directly after the first: the same LP again, now bound to a context at another address that holds the same words (the next
	 * simulation run of the process reusing the LP slot, or a state restored into a relocated context): the stream is
	 * a function of the words behind current_lp->rng_ctx, not of what this thread drew before */
	static struct rng_ctx third_ctx;
	for(int k = 0; k < 4; k++)
		third_ctx.state[k] = in_state[k];
	the_lp.rng_ctx = &third_ctx;
	current_lp = &the_lp;
	uint64_t r3 = RandomU64();
	VASSERT(r3 == r1 && s1[0] == third_ctx.state[0] && s1[1] == third_ctx.state[1] && s1[2] == third_ctx.state[2] &&
		    s1[3] == third_ctx.state[3],
	    "C09.RandomU64 draws from the context the LP is bound to now (no state remembered by the thread)");
	VASSERT(s1[0] == the_ctx.state[0] && s1[1] == the_ctx.state[1] && s1[2] == the_ctx.state[2] && s1[3] == the_ctx.state[3],
	    "C09.RandomU64 leaves a context the LP is no longer bound to alone");
	/* second run: same generator state at a different address, hosted by another thread / rank */
	for(int k = 0; k < 4; k++)
		other_ctx.state[k] = in_state[k];
	current_lp = &other_lp;
	rid = rid2;
	nid = nid2;
	global_config.prng_seed = seed2;
	uint64_t r2 = RandomU64();
	VASSERT(r1 == r2, "C09.RandomU64 output is a function of the generator state only");
	VASSERT(s1[0] == other_ctx.state[0] && s1[1] == other_ctx.state[1] && s1[2] == other_ctx.state[2] &&
		    s1[3] == other_ctx.state[3],
	    "C09.RandomU64 next state is a function of the generator state only (replays after a restore)");
	VCANARY("h_RandomU64_function_of_state reachable");
}

/* random_lib_lp_init: the initial stream state is a function of (seed, lp_id) only - not of the hosting thread or rank */
#ifndef VERIF_NATIVE
#include "lib/random/xxtea.c"
#endif
void h_lp_init_function_of_seed_and_id(void)
{
	VIN(lp_id_t, lp_id);
	VIN(uint64_t, seed);
	VIN(rid_t, rid1);
	VIN(rid_t, rid2);
	VIN(nid_t, nid1);
	VIN(nid_t, nid2);
	VIN(nid_t, nn1);
	VIN(nid_t, nn2);
	VIN(uint64_t, lnf1);
	VIN(uint64_t, lnf2);
	VIN_ARR(uint64_t, junk1, 4);
	VIN_ARR(uint64_t, junk2, 4);
	for(int k = 0; k < 4; k++) {
		the_ctx.state[k] = junk1[k];
		other_ctx.state[k] = junk2[k];
	}
	global_config.prng_seed = seed;
	rid = rid1; nid = nid1; n_nodes = nn1; lid_node_first = lnf1; current_lp = &the_lp;
	random_lib_lp_init(lp_id, &the_ctx);
	rid = rid2; nid = nid2; n_nodes = nn2; lid_node_first = lnf2; current_lp = &other_lp;
	random_lib_lp_init(lp_id, &other_ctx);
	VASSERT(the_ctx.state[0] == other_ctx.state[0] && the_ctx.state[1] == other_ctx.state[1] &&
		    the_ctx.state[2] == other_ctx.state[2] && the_ctx.state[3] == other_ctx.state[3],
	    "C09.lp_init stream state is a function of (seed, LP id) only");
	VCANARY("h_lp_init_function_of_seed_and_id reachable");
}

void h_lp_init_contract(void)
{
	VIN(lp_id_t, lp_id);
	VIN(uint64_t, seed);
	VIN_ARR(uint64_t, in_other, 4);
	for(int k = 0; k < 4; k++)
		other_ctx.state[k] = in_other[k];
	global_config.prng_seed = seed;
	uint64_t seed_before = global_config.prng_seed;
	random_lib_lp_init(lp_id, &the_ctx);
	VASSERT(global_config.prng_seed == seed_before, "C09.lp_init does not consume or alter the configured seed");
	OTHER_UNTOUCHED("C09.lp_init");
	VCANARY("h_lp_init_contract reachable");
}
