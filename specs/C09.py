# C09 - RNG half only: the library stream of an LP is a function of (seed, LP id) and replays after a restore.
LEVEL = "proof"
F = "harness/c18_random.c"
HARNESSES = [
    H(name="C09.lp_init_function_of_seed_and_id", file=F, entry="h_lp_init_function_of_seed_and_id", funcs=["random_lib_lp_init", "xxtea_encode"],
      unwindset=("xxtea_encode.0:8", "xxtea_encode.1:15", "h_lp_init_function_of_seed_and_id.0:5"), timeout=900, mem_gb=8, solver="kissat",
      desc="self-composition: two runs of the real random_lib_lp_init+xxtea_encode with equal (seed, lp_id) and every other runtime global (rid, nid, n_nodes, lid_node_first, current_lp, target address, prior content) different give equal states; loops are constant (14 rounds x 8 words), unwound completely"),
    H(name="C09.lp_init_contract", file=F, entry="h_lp_init_contract", enforce="random_lib_lp_init", funcs=["random_lib_lp_init"],
      unwindset=("xxtea_encode.0:8", "xxtea_encode.1:15", "h_lp_init_contract.0:5"), timeout=900,
      desc="frame of random_lib_lp_init: only the given context is assigned (seed and other LPs' generators untouched)"),
    H(name="C09.RandomU64_function_of_state", file=F, entry="h_RandomU64_function_of_state", funcs=["RandomU64"],
      unwindset=("h_RandomU64_function_of_state.0:5", "h_RandomU64_function_of_state.1:5"),
      desc="self-composition: output and next state of RandomU64 depend on the 4 state words only (so a restored state replays the same values)"),
    H(name="C09.RandomU64_frame", file=F, entry="h_RandomU64", enforce="RandomU64", funcs=["RandomU64"], unwindset=("h_RandomU64.0:5",),
      desc="RandomU64 assigns nothing but the calling LP's generator state (which lives in rollbackable memory, see C05.lp_init)"),
]
EXPLANATION = ("Only the second sentence of C09 is decided (the RNG half). random_lib_lp_init and xxtea_encode have constant loop bounds and "
               "are unwound completely (complete, not a bounded stand-in). 'Function of X only' is shown by self-composition on the real "
               "code with everything except X havocked between the two runs; 'replays after rollback' follows from RandomU64 being a "
               "function of the state words, its frame being that state only, and C05's restore of the arena holding the state. "
               "The first sentence of C09 (same committed outcome for every configuration) is a whole-run equivalence (C01 class): NOT decided.")
ASSUMPTIONS = ["first sentence of C09 (configuration-independent committed outcome) not decided by this technique",
               "lp_init passes the global LP id and allocates the context with rs_malloc (obligation C05.lp_init)"]
LEVEL_TEXT = ("Deductive proof (self-composition + frame contracts, constant loops fully unwound) that the per-LP random stream is a function "
              "of (seed, LP id) only and replays from a restored state. The configuration-independence of whole-run outcomes is not decided.")
LEVEL_NOTE = "Trusted: CBMC; only the RNG half of the statement is claimed; whole-run equivalence across configurations is out of reach of contracts."
TECHNIQUE = "CBMC contracts + self-composition harnesses on the real random.c / xxtea.c"
DESIGN_REF = "DESIGN.md §4 C09"

import importlib.util as _ilu, os as _os
_sp14 = _ilu.spec_from_file_location("spec_C14_for_C09", _os.path.join(_os.path.dirname(__file__), "C14.py"))
_m14 = _ilu.module_from_spec(_sp14); _m14.H = H; _sp14.loader.exec_module(_m14)
for _h in _m14.mk("quick", 9, 2, 5, 1200, which=(1,)):
    _h["name"] = _h["name"].replace("C14.", "C09.")
    _h["tiers"] = ("quick", "thorough")
    _h["desc"] = "lp_init seeds each LP's stream with its GLOBAL identifier (not a thread- or rank-local index) and keeps the state in rollbackable memory (bounded configuration box)"
    HARNESSES.append(_h)
