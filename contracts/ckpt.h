/* contracts/ckpt.h - contracts of one-arena checkpointing (src/mm/buddy/ckpt.c; properties C05, C11).
 * Included after the real ckpt.c and contracts/buddy.h. */
#ifndef VERIF_CONTRACT_CKPT_H
#define VERIF_CONTRACT_CKPT_H

#define CK_HDR (offsetof(struct buddy_checkpoint, base_mem))

/* bytes of all live blocks = what a full checkpoint stores after its header */
static inline uint32_t b_alloc_bytes(const uint8_t *lon)
{
	uint32_t s = 0;
	for(uint32_t i = 0; i < B_NODES; i++)
		if(b_live(lon, i))
			s += 1U << b_lev(i);
	return s;
}
static inline bool b_wf_lon(const uint8_t *lon)
{
	for(uint32_t i = 0; i < B_NODES; i++)
		if(!b_wf_node(lon, i))
			return false;
	return true;
}
/* position inside the checkpoint payload of arena byte x, which lies in live block n: blocks are stored in address order */
static inline uint32_t b_ckpt_pos(const uint8_t *lon, uint32_t n, uint32_t x)
{
	uint32_t s = 0;
	for(uint32_t i = 0; i < B_NODES; i++)
		if(b_live(lon, i) && b_off(i) < b_off(n))
			s += 1U << b_lev(i);
	return s + (x - b_off(n));
}

extern uint32_t verif_x; /* ghost: an arbitrary byte offset of the arena */
extern uint32_t verif_alloc; /* ghost: b_alloc_bytes of the tree being saved (calls are not allowed in assigns targets) */

struct buddy_checkpoint *checkpoint_full_take(const struct buddy_state *self, struct buddy_checkpoint *ret)
__CPROVER_requires(__CPROVER_r_ok(self, sizeof(*self)))
__CPROVER_requires(b_wf(self))
__CPROVER_requires(verif_g < B_NODES && verif_n < B_NODES && verif_x < B_TOTAL)
__CPROVER_requires(verif_alloc == b_alloc_bytes(self->longest))
__CPROVER_requires(__CPROVER_rw_ok(ret, CK_HDR + verif_alloc))
/* writes exactly the header and the live bytes - never past what full_ckpt_size accounts for */
__CPROVER_assigns(__CPROVER_object_upto(ret, CK_HDR + verif_alloc))
__CPROVER_ensures((char *)__CPROVER_return_value == (char *)ret + CK_HDR + b_alloc_bytes(self->longest))
__CPROVER_ensures(ret->orig == self && ret->longest[verif_g] == self->longest[verif_g])
/* every byte of every live block is stored, at its address-ordered position */
__CPROVER_ensures((b_live(self->longest, verif_n) && b_off(verif_n) <= verif_x && verif_x < b_off(verif_n) + (1U << b_lev(verif_n)))
	==> ret->base_mem[b_ckpt_pos(self->longest, verif_n, verif_x)] == self->base_mem[verif_x])
;

extern uint8_t verif_lon_before; /* ghost: self->longest[verif_g] before the call */
extern unsigned char verif_byte_before; /* ghost: self->base_mem[verif_x] before the call */

const struct buddy_checkpoint *checkpoint_full_restore(struct buddy_state *self, const struct buddy_checkpoint *ckp)
__CPROVER_requires(__CPROVER_rw_ok(self, sizeof(*self)))
__CPROVER_requires(__CPROVER_r_ok(ckp, CK_HDR))
__CPROVER_requires(verif_g < B_NODES && verif_n < B_NODES && verif_x < B_TOTAL)
__CPROVER_requires(ckp->orig == self ==> (b_wf_lon(ckp->longest) && __CPROVER_r_ok(ckp, CK_HDR + b_alloc_bytes(ckp->longest))))
__CPROVER_requires(verif_lon_before == self->longest[verif_g] && verif_byte_before == self->base_mem[verif_x])
__CPROVER_assigns(__CPROVER_object_upto(self->longest, sizeof(self->longest)), __CPROVER_object_upto(self->base_mem, sizeof(self->base_mem)))
/* a record that belongs to another arena is refused and leaves this arena untouched */
__CPROVER_ensures(ckp->orig != self ==> (__CPROVER_return_value == NULL && self->longest[verif_g] == verif_lon_before &&
	self->base_mem[verif_x] == verif_byte_before))
__CPROVER_ensures(ckp->orig == self ==> ((const char *)__CPROVER_return_value == (const char *)ckp + CK_HDR + b_alloc_bytes(ckp->longest) &&
	self->longest[verif_g] == ckp->longest[verif_g]))
/* every byte of every block live in the checkpointed tree gets its checkpointed value back */
__CPROVER_ensures((ckp->orig == self && b_live(ckp->longest, verif_n) && b_off(verif_n) <= verif_x &&
	verif_x < b_off(verif_n) + (1U << b_lev(verif_n)))
	==> self->base_mem[verif_x] == ckp->base_mem[b_ckpt_pos(ckp->longest, verif_n, verif_x)])
;

#endif
