/* C06 / C05 / C07 / C13 / C20 - the per-LP processing logic of src/lp/process.c and src/gvt/fossil.c (real text).
 * Bounded: histories of at most NH entries (stated in the evidence). Every callee outside these two files is a
 * ghost-counting environment stub (VERIF_STUB): it records what it was asked to do, per message. */
#include "verif_harness.h"
#include <stdlib.h>
#include <string.h>
#include "lp/process.c"
#include "gvt/fossil.c"

#ifndef NH
#define NH 4
#endif

/* ghost record of do_rollback when process_msg is checked modularly (callee replaced by its contract) */
static unsigned verif_rb_calls;
static array_count_t verif_rb_arg;
#ifndef VERIF_NATIVE
static void do_rollback(struct lp_ctx *lp, array_count_t past_i)
__CPROVER_requires(lp != NULL && past_i <= array_count(lp->p.p_msgs))
__CPROVER_assigns(lp->p.p_msgs.count, verif_rb_calls, verif_rb_arg)
__CPROVER_ensures(array_count(lp->p.p_msgs) == past_i && verif_rb_calls == __CPROVER_old(verif_rb_calls) + 1 && verif_rb_arg == past_i)
;
#endif
#define NM (NH + 4) /* messages: one per history slot + incoming / scheduled / early anti-messages */

/* ------------------------------------------------------------------ environment state */
struct simulation_configuration global_config;
struct lp_ctx *lps;
__thread struct lp_ctx *current_lp;
__thread rid_t rid;
nid_t nid, n_nodes;
uint64_t lid_node_first;
lp_id_t n_lps_node;

static struct lp_msg *M[NM];
static unsigned n_msgs;
static unsigned q_ins[NM], anti_sent[NM], remote_sent[NM], free_gvt[NM], freed[NM], dispatched[NM];
static unsigned disp_log[2 * NM], disp_silent[2 * NM], n_disp;
static unsigned n_alloc, n_unknown;
static uint64_t stats[STATS_COUNT];
static unsigned ckpt_take_calls, restore_calls, fossil_calls, term_proc_calls, term_rb_calls;
static array_count_t ckpt_take_ref, restore_arg, restore_ret, fossil_arg, fossil_ret;
static simtime_t term_proc_t, term_rb_t;
static struct lp_msg *next_extract;
static bool model_schedules;
static unsigned hist_at_rb; /* history length seen by the allocator restore (after the cut) */
/* interference at publication: once a message is in the receiver's queue, the receiving thread may process it at any
 * moment, i.e. raise MSG_FLAG_PROCESSED in its flags word; the sender's guarantee is that it only ever *adds* the ANTI
 * bit afterwards (send_anti_messages relies on the PROCESSED bit to decide whether to re-insert) */
static bool pub_interfere;
static unsigned pub_processed[NM];

/* contract instrumentation (dfcc) makes objects of static lifetime nondeterministic: reset every ghost explicitly */
static void ghosts_reset(void)
{
	for(unsigned k = 0; k < NM; k++)
		q_ins[k] = anti_sent[k] = remote_sent[k] = free_gvt[k] = freed[k] = dispatched[k] = 0;
	for(unsigned k = 0; k < STATS_COUNT; k++)
		stats[k] = 0;
	n_disp = n_alloc = n_unknown = n_msgs = 0;
	ckpt_take_calls = restore_calls = fossil_calls = term_proc_calls = term_rb_calls = 0;
	verif_rb_calls = 0;
	model_schedules = false;
	pub_interfere = false;
	for(unsigned k = 0; k < NM; k++)
		pub_processed[k] = 0;
	silent_processing = false;
	next_extract = NULL;
}

static unsigned idx(const void *p)
{
	for(unsigned k = 0; k < NM; k++)
		if(k < n_msgs && (const void *)M[k] == p)
			return k;
	n_unknown++;
	return NM - 1;
}
static unsigned idx_pl(const void *pl)
{
	for(unsigned k = 0; k < NM; k++)
		if(k < n_msgs && (const void *)M[k]->pl == pl)
			return k;
	n_unknown++;
	return NM - 1;
}

/* ------------------------------------------------------------------ VERIF_STUB environment */
#ifndef VERIF_NATIVE
/* the history array is given spare capacity: "array_expand never reallocates here" is a checked obligation */
void *realloc(void *p, size_t n)
{
	(void)n;
	__CPROVER_assert(0, "C06.harness capacity suffices: array_expand never reallocates in this bounded scenario");
	return p;
}
/* exact byte-wise memmove towards lower addresses (array_truncate_first) */
void *memmove(void *dst, const void *src, size_t n)
{
	__CPROVER_assert((const char *)dst <= (const char *)src, "C13.memmove moves towards lower addresses");
	for(size_t i = 0; i < n; i++)
		((unsigned char *)dst)[i] = ((const unsigned char *)src)[i];
	return dst;
}
#endif
bool nondet_in_receiver_runs(void);
void msg_queue_insert(struct lp_msg *m)
{
	q_ins[idx(m)]++;
#ifndef VERIF_NATIVE
	if(pub_interfere && nondet_in_receiver_runs()) {
		atomic_fetch_or_explicit(&m->flags, MSG_FLAG_PROCESSED, memory_order_relaxed);
		pub_processed[idx(m)]++;
	}
#endif
}
struct lp_msg *msg_queue_extract(void) { return next_extract; }
void mpi_remote_msg_send(struct lp_msg *m, nid_t d) { (void)d; remote_sent[idx(m)]++; m->raw_flags = 4U; }
void mpi_remote_anti_msg_send(struct lp_msg *m, nid_t d) { (void)d; anti_sent[idx(m)]++; }
void msg_allocator_free(struct lp_msg *m) { freed[idx(m)]++; }
void msg_allocator_free_at_gvt(struct lp_msg *m) { free_gvt[idx(m)]++; }
struct lp_msg *msg_allocator_alloc(unsigned pls)
{
	struct lp_msg *m = malloc(offsetof(struct lp_msg, pl) + (pls > MSG_PAYLOAD_BASE_SIZE ? pls : MSG_PAYLOAD_BASE_SIZE));
	VASSUME(m != NULL);
	m->pl_size = pls;
	n_alloc++;
	if(n_msgs < NM)
		M[n_msgs++] = m;
	return m;
}
void model_allocator_checkpoint_take(struct mm_state *s, array_count_t ref_i) { (void)s; ckpt_take_calls++; ckpt_take_ref = ref_i; }
array_count_t model_allocator_checkpoint_restore(struct mm_state *s, array_count_t ref_i)
{
	(void)s;
	restore_calls++;
	restore_arg = ref_i;
	hist_at_rb = array_count(current_lp->p.p_msgs);
	return restore_ret;
}
array_count_t model_allocator_fossil_lp_collect(struct mm_state *s, array_count_t tgt) { (void)s; fossil_calls++; fossil_arg = tgt; return fossil_ret; }
void model_allocator_checkpoint_next_force_full(struct mm_state *s) { (void)s; }
void stats_take(enum stats_thread_type st, uint_fast64_t c) { stats[st] += c; }
void termination_on_msg_process(struct lp_ctx *lp, simtime_t t) { (void)lp; term_proc_calls++; term_proc_t = t; }
void termination_on_lp_rollback(struct lp_ctx *lp, simtime_t t) { (void)lp; term_rb_calls++; term_rb_t = t; }
void gvt_on_msg_extraction(simtime_t t) { (void)t; }
void auto_ckpt_recompute(struct auto_ckpt *a, uint_fast32_t sz) { (void)a; (void)sz; }
void ScheduleNewEvent_serial(lp_id_t r, simtime_t t, unsigned ty, const void *p, unsigned s) { (void)r; (void)t; (void)ty; (void)p; (void)s; }
#ifdef VERIF_NATIVE
void vlogger(enum log_level l, char *f, unsigned n, const char *fmt, ...) { (void)l; (void)f; (void)n; (void)fmt; }
#endif
__thread bool gvt_phase;
__thread uint32_t remote_msg_seq[2][MAX_NODES];
__thread uint32_t remote_msg_received[2];

/* the model: records what it is handed, and (optionally) schedules one event to LP 0 as models do */
static void stub_dispatcher(lp_id_t me, simtime_t now, unsigned type, const void *content, unsigned size, void *st)
{
	(void)me; (void)size; (void)st;
	if(type == LP_FINI)
		return;
	unsigned k = idx_pl(content);
	dispatched[k]++;
	if(n_disp < 2 * NM) {
		disp_log[n_disp] = k;
		disp_silent[n_disp] = silent_processing;
		n_disp++;
	}
	if(model_schedules)
		ScheduleNewEvent(0, now + 1.0, 7, NULL, 0);
}
static bool stub_committed(lp_id_t me, const void *s) { (void)me; (void)s; return false; }

/* ------------------------------------------------------------------ an arbitrary well-formed history
 * slot kinds: 0 = processed event ("past"), 1 = message sent to a local LP, 2 = message sent to a remote LP;
 * a well-formed history is a sequence of groups (sends of an event, then the event), hence ends with an event. */
static struct lp_ctx the_lps[2];
static unsigned kind[NH];
static unsigned n_hist;

static struct lp_msg *new_msg(simtime_t t, uint32_t flags, uint32_t type)
{
	struct lp_msg *m = malloc(sizeof(struct lp_msg));
	VASSUME(m != NULL);
	m->dest = 0;
	m->dest_t = t;
	m->pl_size = 0;
	m->m_type = type;
	m->m_seq = 0;
	m->next = NULL;
	atomic_store_explicit(&m->flags, flags, memory_order_relaxed);
	if(n_msgs < NM)
		M[n_msgs++] = m;
	return m;
}

#define HIST_SETUP()                                                                                                   \
	VIN(unsigned, in_n);                                                                                           \
	VIN_ARR(unsigned, in_kind, NH);                                                                                \
	VIN_ARR(simtime_t, in_t, NM);                                                                                  \
	VIN_ARR(uint32_t, in_flags, NM);                                                                               \
	VIN_ARR(uint32_t, in_type, NM);                                                                                \
	VASSUME(in_n >= 1 && in_n <= NH);                                                                              \
	n_hist = in_n;                                                                                                 \
	ghosts_reset();                                                                                                \
	lps = the_lps;                                                                                                 \
	current_lp = &lps[0];                                                                                          \
	global_config.dispatcher = stub_dispatcher;                                                                    \
	global_config.committed = stub_committed;                                                                      \
	global_config.lps = 2;                                                                                         \
	global_config.serial = false;                                                                                  \
	n_nodes = 2; /* LP 0 is hosted here, LP 1 on the other rank */                                                 \
	nid = 0;                                                                                                       \
	lps[0].p.p_msgs.items = malloc((NH + 4) * sizeof(struct lp_msg *));                                            \
	lps[0].p.p_msgs.capacity = NH + 4;                                                                             \
	lps[0].p.p_msgs.count = n_hist;                                                                                \
	lps[0].p.early_antis = NULL;                                                                                   \
	VASSUME(lps[0].p.p_msgs.items != NULL);                                                                        \
	for(unsigned k_ = 0; k_ < NH; k_++)                                                                            \
		if(k_ < n_hist) {                                                                                      \
			VASSUME(in_kind[k_] <= 2 && in_t[k_] == in_t[k_] && in_t[k_] >= 0.0 && in_type[k_] < LP_INIT); \
			kind[k_] = in_kind[k_];                                                                        \
			uint32_t f_ = in_flags[k_];                                                                    \
			/* flags a message can carry while it sits in a history (see DESIGN rely/guarantee table) */   \
			if(kind[k_] == 0)                                                                              \
				VASSUME(f_ == MSG_FLAG_PROCESSED || f_ == (MSG_FLAG_PROCESSED | MSG_FLAG_ANTI) ||      \
					(f_ > 3 && (f_ & 3U) == MSG_FLAG_PROCESSED));                                  \
			else if(kind[k_] == 1)                                                                         \
				VASSUME(f_ == 0 || f_ == MSG_FLAG_PROCESSED);                                          \
			else /* copy of a remotely sent event: id | GVT colour in bit 0 (gvt_remote_msg_send) */        \
				VASSUME(f_ > 3 && (f_ & 2U) == 0);                                                     \
			struct lp_msg *m_ = new_msg(in_t[k_], f_, in_type[k_]);                                        \
			lps[0].p.p_msgs.items[k_] = kind[k_] == 0 ? m_ : kind[k_] == 1 ? mark_msg_sent(m_) : mark_msg_remote(m_); \
		}                                                                                                      \
	VASSUME(in_type[NH] < LP_INIT);                                                                                \
	VASSUME(kind[n_hist - 1] == 0)

#define IS_PAST(k) (kind[k] == 0)
#define BOUNDARY(i) ((i) == 0 || ((i) <= n_hist && IS_PAST((i) - 1)))

/* ------------------------------------------------------------------ send_anti_messages (C06) */
void h_send_anti(void)
{
	HIST_SETUP();
	VIN(array_count_t, past_i);
	VIN(unsigned, g);
	VASSUME(past_i <= n_hist && g < n_hist);
	uint32_t fg = in_flags[g];
	send_anti_messages(&lps[0].p, past_i);
	VASSERT(array_count(lps[0].p.p_msgs) == past_i, "C06.anti the history is cut exactly at the rollback point");
	VASSERT(n_unknown == 0, "C06.anti only messages of the history are touched");
	uint32_t now = atomic_load_explicit(&M[g]->flags, memory_order_relaxed);
	if(g < past_i) {
		VASSERT(now == fg && q_ins[g] == 0 && anti_sent[g] == 0 && free_gvt[g] == 0,
		    "C06.anti entries before the rollback point (still valid) are neither cancelled nor re-queued");
	} else if(kind[g] == 1) {
		VASSERT(now == fg + MSG_FLAG_ANTI, "C06.anti a locally sent message of an undone event gets the ANTI mark exactly once");
		VASSERT(q_ins[g] == ((fg & MSG_FLAG_PROCESSED) ? 1U : 0U),
		    "C06.anti the cancelled local message is re-queued to its receiver iff the receiver had already processed it");
		VASSERT(anti_sent[g] == 0 && free_gvt[g] == 0, "C06.anti a local message is not sent over MPI");
	} else if(kind[g] == 2) {
		VASSERT(anti_sent[g] == 1 && free_gvt[g] == 1 && q_ins[g] == 0,
		    "C06.anti a remotely sent message of an undone event: exactly one anti-message and one deferred release");
	} else {
		VASSERT(now == fg - MSG_FLAG_PROCESSED, "C06.anti an undone processed event loses the PROCESSED mark exactly once");
		VASSERT(q_ins[g] == ((fg & MSG_FLAG_ANTI) ? 0U : 1U),
		    "C06.anti the undone event is re-queued for re-processing unless its sender already cancelled it");
		VASSERT(anti_sent[g] == 0 && free_gvt[g] == 0, "C06.anti an undone event is not an anti-message");
	}
	VASSERT(freed[g] == 0, "C06.anti nothing is released while it is still reachable");
	unsigned n_sent = 0, n_past = 0;
	for(unsigned k = 0; k < NH; k++)
		if(k >= past_i && k < n_hist) {
			n_sent += kind[k] != 0;
			n_past += kind[k] == 0;
		}
	VASSERT(stats[STATS_MSG_ANTI] == n_sent, "C20.anti one anti-message counted per cancelled send");
	VASSERT(stats[STATS_MSG_ROLLBACK] == n_past, "C20.anti one undone event counted per undone processed entry");
	VCANARY("h_send_anti reachable");
	VCOVER(g >= past_i && kind[g] == 1 && (fg & MSG_FLAG_PROCESSED), "h_send_anti covers cancel-after-processed");
	VCOVER(g >= past_i && kind[g] == 0 && (fg & MSG_FLAG_ANTI), "h_send_anti covers undone-event-already-cancelled");
}

/* ------------------------------------------------------------------ silent_execution + ScheduleNewEvent (C05) */
void h_silent(void)
{
	HIST_SETUP();
	VIN(array_count_t, last_i);
	VIN(array_count_t, past_i);
	VIN(bool, sched);
	VASSUME(last_i <= past_i && past_i <= n_hist && BOUNDARY(last_i) && BOUNDARY(past_i));
	model_schedules = sched;
	silent_execution(&lps[0], last_i, past_i);
	unsigned expect = 0;
	bool in_order = true;
	for(unsigned k = 0; k < NH; k++)
		if(k < n_hist && IS_PAST(k)) {
			bool in = k >= last_i && k < past_i;
			VASSERT(dispatched[k] == (in ? 1U : 0U),
			    "C05.silent exactly the processed events in [restored checkpoint, rollback point) are re-executed, once each");
			if(in) {
				in_order = in_order && expect < n_disp && disp_log[expect] == k && disp_silent[expect] == 1;
				expect++;
			}
		}
	VASSERT(in_order && n_disp == expect, "C05.silent re-execution follows the history order with the silent flag raised");
	VASSERT(!silent_processing, "C05.silent the silent flag is lowered afterwards");
	VASSERT(n_alloc == 0 && array_count(lps[0].p.p_msgs) == n_hist, "C05.silent events re-executed silently emit nothing");
	for(unsigned k = 0; k < NM; k++)
		VASSERT(q_ins[k] == 0 && remote_sent[k] == 0, "C05.silent nothing is queued or sent during silent re-execution");
	VASSERT(stats[STATS_MSG_SILENT] == expect, "C20.silent one silent re-execution counted per coast-forward dispatch");
	VCANARY("h_silent reachable");
	VCOVER(expect >= 2 && sched, "h_silent covers two re-executed events of a scheduling model");
}

/* ScheduleNewEvent outside silent mode: exactly one message, recorded in the history with the right tag */
void h_schedule(void)
{
	HIST_SETUP();
	VIN(lp_id_t, receiver);
	VIN(simtime_t, t);
	VASSUME(receiver < 2 && t == t);
	unsigned before = n_msgs;
	pub_interfere = true;
	ScheduleNewEvent(receiver, t, 9, NULL, 0);
	pub_interfere = false;
	VASSERT(n_alloc == 1 && n_msgs == before + 1, "C06.schedule one buffer per scheduled event");
	VASSERT(array_count(lps[0].p.p_msgs) == n_hist + 1, "C06.schedule the send is recorded in the sender's history");
	struct lp_msg *e = array_peek(lps[0].p.p_msgs);
	struct lp_msg *m = M[before];
	VASSERT(unmark_msg(e) == m && m->dest == receiver && m->dest_t == t && m->m_type == 9, "C06.schedule the recorded message is the scheduled one");
	if(receiver == 0) {
		VASSERT(is_msg_local_sent(e) && !is_msg_remote(e) && q_ins[before] == 1 && remote_sent[before] == 0 &&
			    (atomic_load_explicit(&m->flags, memory_order_relaxed) & ~(uint32_t)MSG_FLAG_PROCESSED) == 0,
		    "C06.schedule a local event is queued once with clear flags and tagged local");
		VASSERT((atomic_load_explicit(&m->flags, memory_order_relaxed) & MSG_FLAG_PROCESSED) == (pub_processed[before] ? MSG_FLAG_PROCESSED : 0U),
		    "C06.schedule the flags word is initialised before publication: a receiver that processes the event at once keeps its PROCESSED bit");
		VCOVER(pub_processed[before] == 1, "h_schedule covers a receiver that processes the event during publication");
	} else {
		VASSERT(is_msg_remote(e) && !is_msg_local_sent(e) && remote_sent[before] == 1 && q_ins[before] == 0,
		    "C06.schedule a remote event is sent once over MPI and tagged remote");
	}
	VCANARY("h_schedule reachable");
}

/* ------------------------------------------------------------------ straggler / anti-message matching (C01/C05/C06 anchors) */
static bool before(const struct lp_msg *a, const struct lp_msg *b) { return msg_is_before(a, b); }

void h_match_straggler(void)
{
	HIST_SETUP();
	VIN(unsigned, g);
	VASSUME(g < n_hist);
	struct lp_msg *s = new_msg(in_t[NH], 0, in_type[NH]);
	VASSUME(in_t[NH] == in_t[NH] && in_t[NH] >= 0.0);
	/* the history is ordered: each processed event is not before the previous one */
	for(unsigned a = 0; a < NH; a++)
		for(unsigned b = 0; b < NH; b++)
			if(a < b && b < n_hist && IS_PAST(a) && IS_PAST(b))
				VASSUME(!before(M[b], M[a]));
	VASSUME(before(s, M[n_hist - 1])); /* call-site condition in process_msg: the event precedes the last processed one */
	array_count_t r = match_straggler_msg(&lps[0].p, s);
	VASSERT(r < n_hist && BOUNDARY(r), "C05.straggler the rollback point is on an event boundary of the history");
	VASSERT(!(IS_PAST(g) && g >= r) || before(s, M[g]), "C05.straggler only events the straggler precedes are undone");
	VASSERT(!(IS_PAST(g) && g < r) || !before(s, M[g]), "C05.straggler no event that the straggler precedes stays processed");
	VCANARY("h_match_straggler reachable");
	VCOVER(r > 0 && r < n_hist, "h_match_straggler covers a partial rollback");
}

void h_match_anti(void)
{
	HIST_SETUP();
	VIN(unsigned, a);
	VASSUME(a < n_hist && IS_PAST(a));
	array_count_t r = match_anti_msg(&lps[0].p, M[a]);
	VASSERT(r <= a && BOUNDARY(r), "C06.match_anti the rollback point is an event boundary at or before the cancelled event");
	for(unsigned k = 0; k < NH; k++)
		if(k < a && k >= r)
			VASSERT(!IS_PAST(k), "C06.match_anti no processed event between the rollback point and the cancelled event is undone needlessly");
	VCANARY("h_match_anti reachable");
	VCOVER(r > 0 && r < a, "h_match_anti covers an event with recorded sends");
}

/* ------------------------------------------------------------------ do_rollback (C05 O8, C20) */
void h_do_rollback(void)
{
	HIST_SETUP();
	VIN(array_count_t, past_i);
	VIN(array_count_t, ck);
	VASSUME(past_i <= n_hist && BOUNDARY(past_i) && ck <= past_i && BOUNDARY(ck));
	restore_ret = ck; /* ASSUMED contract of model_allocator_checkpoint_restore: a checkpoint boundary not after the target */
	do_rollback(&lps[0], past_i);
	VASSERT(restore_calls == 1 && restore_arg == past_i, "C05.rollback the allocator is restored to the newest checkpoint not after the rollback point");
	VASSERT(hist_at_rb == past_i && array_count(lps[0].p.p_msgs) == past_i, "C05.rollback history cut before the state is restored");
	unsigned expect = 0;
	for(unsigned k = 0; k < NH; k++)
		if(k < n_hist && IS_PAST(k)) {
			bool in = k >= ck && k < past_i;
			VASSERT(dispatched[k] == (in ? 1U : 0U), "C05.rollback coast-forward re-executes exactly the events between the checkpoint and the rollback point");
			expect += in;
		}
	VASSERT(stats[STATS_ROLLBACK] == 1, "C20.rollback one rollback counted");
	VASSERT(stats[STATS_MSG_SILENT] == expect, "C20.rollback silent executions counted");
	VCANARY("h_do_rollback reachable");
}

/* ------------------------------------------------------------------ process_msg dispatch on the message word (C06, C07) */
void h_process_msg(void)
{
	HIST_SETUP();
	VIN(uint32_t, f_in);
	VIN(bool, in_hist);
	VIN(unsigned, a);
	VIN(simtime_t, bound);
	VIN(array_count_t, ck);
	VIN(unsigned, ckpt_rem);
	VIN(unsigned, ckpt_interval);
	VASSUME(a < n_hist && bound == bound);
	struct lp_msg *msg;
	/* the word of an incoming message: 0 fresh local, ANTI cancelled before processing, ANTI|PROCESSED cancelled after
	 * (then it is the processed entry a of this history), or a remote id (> 3) with or without ANTI */
#ifdef PM_CASE /* one admissible word per harness instance keeps the dispatch branches concrete for the symbolic execution */
	VASSUME(in_hist == (PM_CASE == 3) && (PM_CASE == 3 || f_in == PM_CASE));
#endif
	if(in_hist) {
		VASSUME(IS_PAST(a) && in_flags[a] == MSG_FLAG_PROCESSED && f_in == MSG_FLAG_ANTI);
		msg = M[a];
		atomic_store_explicit(&msg->flags, f_in, memory_order_relaxed); /* sender added ANTI, removed nothing; receiver side re-extracts */
		/* re-queued by the sender after it saw PROCESSED: the word now holds ANTI|PROCESSED - PROCESSED handled below */
		atomic_store_explicit(&msg->flags, MSG_FLAG_ANTI | MSG_FLAG_PROCESSED, memory_order_relaxed);
	} else {
		VASSUME(f_in == 0 || f_in == MSG_FLAG_ANTI);
#ifdef PM_CASE
		msg = new_msg(in_t[NH], PM_CASE == 3 ? 0 : PM_CASE, in_type[NH]);
#else
		msg = new_msg(in_t[NH], f_in, in_type[NH]);
#endif
		VASSUME(in_t[NH] == in_t[NH] && in_t[NH] >= 0.0);
	}
	unsigned mi = idx(msg);
	n_unknown = 0;
	next_extract = msg;
	lps[0].p.bound = bound;
	lps[0].fossil_epoch = fossil_epoch_current; /* no fossil collection in this harness */
	lps[0].auto_ckpt.ckpt_rem = ckpt_rem;
	lps[0].auto_ckpt.ckpt_interval = ckpt_interval;
	VASSUME(ck <= n_hist && BOUNDARY(ck));
	restore_ret = 0;
	uint32_t word = atomic_load_explicit(&msg->flags, memory_order_relaxed);
	verif_rb_calls = 0;
	process_msg();
#if defined(PM_MODULAR) && !defined(VERIF_NATIVE)
	/* do_rollback replaced by its contract: it reports the rollback point it was asked for */
	unsigned rb_calls = verif_rb_calls;
	array_count_t rb_arg = verif_rb_arg;
#else
	unsigned rb_calls = restore_calls;
	array_count_t rb_arg = restore_arg;
#endif
	if(word & MSG_FLAG_ANTI) {
		VASSERT(dispatched[mi] == 0, "C06.process a cancelled event is never handed to the model");
		VASSERT(freed[mi] == 1, "C06.process a cancelled local message is released exactly once by its receiver");
		VASSERT(q_ins[mi] == 0, "C06.process a cancelled message is not re-queued");
		if(word == (MSG_FLAG_ANTI | MSG_FLAG_PROCESSED)) {
			VASSERT(rb_calls == 1 && rb_arg <= a && BOUNDARY(rb_arg), "C06.process cancelled-after-processed: one rollback to before the cancelled event");
			VASSERT(term_rb_calls == 1 && term_rb_t == msg->dest_t, "C07.process termination detection is told about the rollback, with the time of its cause");
		} else {
			VASSERT(rb_calls == 0 && term_rb_calls == 0, "C06.process cancelled-before-processed: no rollback");
		}
		VASSERT(term_proc_calls == 0, "C07.process a cancelled event does not count as processed");
	} else {
		VASSERT(dispatched[mi] == 1, "C06.process a valid event is handed to the model exactly once");
		VASSERT(freed[mi] == 0, "C06.process a processed event is not released");
		VASSERT(array_peek(lps[0].p.p_msgs) == msg && is_msg_past(array_peek(lps[0].p.p_msgs)), "C06.process the event is appended to the history as processed");
		VASSERT(atomic_load_explicit(&msg->flags, memory_order_relaxed) == (word | MSG_FLAG_PROCESSED), "C06.process the PROCESSED mark is set exactly once");
		VASSERT(term_proc_calls == 1 && term_proc_t == msg->dest_t, "C07.process termination detection sees every processed event with its timestamp");
		VASSERT(lps[0].p.bound == msg->dest_t, "C06.process the LP bound is the time of the last processed event");
		VASSERT(stats[STATS_MSG_PROCESSED] == 1, "C20.process one forward execution counted per dispatch");
		bool straggler = bound >= msg->dest_t && before(msg, M[n_hist - 1]);
		VASSERT(rb_calls == (straggler ? 1U : 0U), "C05.process a rollback happens exactly when the event precedes the last processed one");
		VASSERT(term_rb_calls == (straggler ? 1U : 0U) && (!straggler || term_rb_t == msg->dest_t), "C07.process a straggler rollback is reported with the straggler's time");
		VASSERT(ckpt_take_calls == ((ckpt_rem + 1 >= ckpt_interval) ? 1U : 0U), "C05.process a checkpoint is taken exactly when the interval elapses");
		VASSERT(ckpt_take_calls == 0 || ckpt_take_ref == array_count(lps[0].p.p_msgs), "C05.process the checkpoint is labelled with the history length including the event");
	}
	VCANARY("h_process_msg reachable");
#if !defined(PM_CASE) || PM_CASE == 3
	VCOVER(word == (MSG_FLAG_ANTI | MSG_FLAG_PROCESSED), "h_process_msg covers cancelled-after-processed");
#endif
#if !defined(PM_CASE) || PM_CASE == 0
	VCOVER(!(word & MSG_FLAG_ANTI) && rb_calls == 1, "h_process_msg covers a straggler");
#endif
}

/* ------------------------------------------------------------------ fossil_lp_collect, history side (C13, C06) */
void h_fossil(void)
{
	HIST_SETUP();
	VIN(simtime_t, gvt);
	VIN(array_count_t, ck);
	VIN(unsigned, g);
	VASSUME(gvt == gvt && g < n_hist);
	for(unsigned a = 0; a < NH; a++)
		for(unsigned b = 0; b < NH; b++)
			if(a < b && b < n_hist && IS_PAST(a) && IS_PAST(b))
				VASSUME(M[a]->dest_t <= M[b]->dest_t);
	fossil_gvt_current = gvt;
	fossil_epoch_current = 5;
	lps[0].fossil_epoch = 4;
	fossil_ret = ck;
	/* ASSUMED contract of the allocator side (proved in C13.alloc_collect): returns a checkpoint boundary <= its target */
	VASSUME(BOUNDARY(ck));
	unsigned cnt0 = n_hist;
	fossil_lp_collect(&lps[0]);
	if(fossil_calls == 1) {
		VASSUME(ck <= fossil_arg); /* allocator contract */
	}
	if(fossil_calls == 0) {
		VASSERT(array_count(lps[0].p.p_msgs) == cnt0 && freed[g] == 0, "C13.fossil nothing is reclaimed when no processed event is below the GVT");
	} else {
		array_count_t tgt = fossil_arg;
		VASSERT(tgt >= 1 && tgt <= cnt0 && IS_PAST(tgt - 1) && M[tgt - 1]->dest_t < gvt,
		    "C13.fossil the committed frontier handed to the allocator is just after the last processed event below the GVT");
		for(unsigned k = 0; k < NH; k++)
			if(k < cnt0 && IS_PAST(k) && k >= tgt)
				VASSERT(!(M[k]->dest_t < gvt), "C13.fossil every processed event at or above the GVT is after the frontier");
		VASSERT(array_count(lps[0].p.p_msgs) == cnt0 - ck, "C13.fossil the released prefix has exactly the length the allocator returned");
		VASSERT(g < ck || lps[0].p.p_msgs.items[g - ck] == (kind[g] == 0 ? M[g] : kind[g] == 1 ? mark_msg_sent(M[g]) : mark_msg_remote(M[g])),
		    "C13.fossil the kept history starts exactly at the kept checkpoint and keeps its order");
		VASSERT(!(g >= ck) || freed[g] == 0, "C13.fossil nothing of the kept history is released");
		VASSERT(!(g < ck) || freed[g] == (kind[g] == 1 ? 0U : 1U),
		    "C06.fossil released prefix: processed and remotely-sent buffers are released once, locally-sent ones belong to their receiver");
		VASSERT(lps[0].fossil_epoch == fossil_epoch_current, "C13.fossil the LP is marked as collected for this epoch");
	}
	VCANARY("h_fossil reachable");
	VCOVER(fossil_calls == 1 && ck >= 2 && ck < cnt0, "h_fossil covers a partial reclaim");
}

/* ------------------------------------------------------------------ process_lp_fini (C06, C11) */
void h_lp_fini(void)
{
	HIST_SETUP();
	VIN(unsigned, g);
	VASSUME(g < n_hist);
	uint32_t fg = in_flags[g];
	process_lp_fini(&lps[0]);
	if(kind[g] == 1)
		VASSERT(freed[g] == 0, "C06.fini a locally sent message is owned by its receiver, not released by the sender");
	else if(kind[g] == 2)
		VASSERT(freed[g] == 1, "C06.fini a remotely sent copy is released once");
	else
		VASSERT(freed[g] == (((fg & MSG_FLAG_ANTI) && fg <= 3) ? 0U : 1U),
		    "C06.fini a processed event is released once unless its sender cancelled it (then the re-queued copy is released from the queue)");
	VCANARY("h_lp_fini reachable");
}

/* ------------------------------------------------------------------ remote anti-messages (C06: "not yet arrived from another rank") */
#define NEA 3
/* check_early_anti_messages: matching is by the full (id, seq) pair; exactly the matched node is unlinked */
void h_early_anti(void)
{
	HIST_SETUP();
	VIN(unsigned, n_early);
	VIN_ARR(uint32_t, e_id, NEA);
	VIN_ARR(uint32_t, e_seq, NEA);
	VIN(uint32_t, m_id);
	VIN(uint32_t, m_seq);
	VIN(unsigned, g);
	VASSUME(n_early >= 1 && n_early <= NEA && g < n_early);
	struct lp_msg *ea[NEA];
	struct lp_msg *head = NULL;
	for(unsigned k = NEA; k > 0; k--)
		if(k - 1 < n_early) {
			ea[k - 1] = new_msg(1.0, e_id[k - 1], 0);
			ea[k - 1]->m_seq = e_seq[k - 1];
			ea[k - 1]->next = head;
			head = ea[k - 1];
		}
	lps[0].p.early_antis = head; /* list order: ea[0], ea[1], ... */
	struct lp_msg *msg = new_msg(2.0, m_id, 0);
	msg->m_seq = m_seq;
	unsigned first = NEA;
	for(unsigned k = NEA; k > 0; k--)
		if(k - 1 < n_early && e_id[k - 1] == m_id && e_seq[k - 1] == m_seq)
			first = k - 1;
	bool r = check_early_anti_messages(&lps[0].p, msg);
	VASSERT(r == (first < NEA), "C06.early an event is annihilated exactly when an early anti-message with the same (id, sequence) pair is pending");
	VASSERT(freed[idx(msg)] == (r ? 1U : 0U), "C06.early the annihilated event is released exactly once, a surviving one is not");
	VASSERT(freed[idx(ea[g])] == ((r && g == first) ? 1U : 0U), "C06.early exactly the matched anti-message is released");
	/* the list keeps every other pending anti-message, in order */
	struct lp_msg *cur = lps[0].p.early_antis;
	for(unsigned k = 0; k < NEA; k++)
		if(k < n_early && !(r && k == first)) {
			VASSERT(cur == ea[k], "C06.early every other pending anti-message stays in the list (nothing is dropped)");
			cur = cur ? cur->next : NULL;
		}
	VASSERT(cur == NULL, "C06.early the list holds nothing else");
	VCANARY("h_early_anti reachable");
	VCOVER(r && first == 1 && n_early == 3, "h_early_anti covers a match in the middle of the list");
}

/* handle_remote_anti_msg: found in the history -> one rollback to the start of its group, both buffers released;
 * not found -> parked as early anti-message, nothing released, no rollback (do_rollback by contract) */
void h_remote_anti(void)
{
	HIST_SETUP();
	VIN_ARR(uint32_t, in_seq, NM);
	VIN(uint32_t, a_id);
	VIN(uint32_t, a_seq);
	VIN(unsigned, g);
	VASSUME(g < n_hist && a_id > 3 && (a_id & 3U) == 0);
	for(unsigned k = 0; k < NH; k++)
		if(k < n_hist)
			M[k]->m_seq = in_seq[k];
	/* as process_msg hands it over: id | ANTI | PROCESSED */
	struct lp_msg *am = new_msg(in_t[NH], a_id | MSG_FLAG_ANTI | MSG_FLAG_PROCESSED, 0);
	am->m_seq = a_seq;
	VASSUME(in_t[NH] == in_t[NH]);
	unsigned ai = idx(am);
	n_unknown = 0;
	unsigned match = NH;
	for(unsigned k = 0; k < NH; k++) /* the newest matching processed entry */
		if(k < n_hist && IS_PAST(k) && in_flags[k] == (a_id | MSG_FLAG_PROCESSED) && in_seq[k] == a_seq)
			match = k;
	verif_rb_calls = 0;
	handle_remote_anti_msg(&lps[0], am);
	if(match == NH) {
		VASSERT(lps[0].p.early_antis == am && am->next == NULL, "C06.remote_anti an anti-message that arrives before its event is parked");
		VASSERT(verif_rb_calls == 0 && freed[ai] == 0 && freed[g] == 0 && term_rb_calls == 0, "C06.remote_anti a parked anti-message causes no rollback and releases nothing");
	} else {
		VASSERT(verif_rb_calls == 1 && verif_rb_arg <= match && BOUNDARY(verif_rb_arg), "C06.remote_anti one rollback to an event boundary at or before the cancelled event");
		for(unsigned k = 0; k < NH; k++)
			if(k < match && k >= verif_rb_arg)
				VASSERT(!IS_PAST(k), "C06.remote_anti no other processed event is undone needlessly");
		VASSERT(freed[match] == 1 && freed[ai] == 1, "C06.remote_anti the cancelled event and the anti-message are each released exactly once");
		VASSERT(g == match || freed[g] == 0, "C06.remote_anti nothing else is released");
		VASSERT(term_rb_calls == 1 && term_rb_t == M[match]->dest_t, "C07.remote_anti the rollback is reported to termination detection with the cancelled event's time");
	}
	VCANARY("h_remote_anti reachable");
	VCOVER(match < NH && match > 0, "h_remote_anti covers a match in the history");
}
