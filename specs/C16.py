# C16 - event order is a strict weak order with content-only tie-break. Loop-free text; unbounded payload with the
# ghost-rank memcmp contract (proof), plus a cross-check with CBMC's byte-wise memcmp model for payloads <= 40 bytes (bounded).
LEVEL = "proof"
F = "harness/c16_order.c"
FUNCS = ["msg_is_before", "msg_is_before_extended", "q_elem_is_before"]

def G(name, entry, desc, **kw):
    return H(name="C16." + name, file=F, entry=entry, defs=("C16_GHOST_MEMCMP",), funcs=FUNCS, kind="proof",
             timeout=300, mem_gb=6, desc=desc, native=False, **kw)

def B(name, entry, desc, tiers=("quick", "thorough"), **kw):
    return H(name="C16." + name + ".bytes40", file=F, entry=entry, funcs=FUNCS, kind="bounded",
             bound="payload size <= 40 bytes (covers 0, <=32 and >32), CBMC memcmp model unwound 41 times",
             unwindset=("memcmp.0:42", "mk_msg.0:41"), timeout=900, mem_gb=8, desc=desc, tiers=tiers, **kw)

HARNESSES = [
    G("order_axioms", "h_order_axioms", "irreflexive, asymmetric, transitive, incomparability transitive for msg_is_before; 3 symbolic messages, any payload length", canaries=2),
    G("q_elem_axioms", "h_q_elem_axioms", "the same for q_elem_is_before under qe.t == qe.m->dest_t, and agreement with msg_is_before"),
    G("content_only", "h_content_only", "self-composition: verdict depends only on (time, ANTI, type, size, payload); other fields and addresses arbitrary"),
    G("extended_contract", "h_extended_contract", "function contract of msg_is_before_extended: empty frame, reads inside the buffers, field precedence",
      enforce="msg_is_before_extended"),
    B("order_axioms", "h_order_axioms", "axioms with real byte-wise comparison", canaries=2),
    B("content_only", "h_content_only", "content-only with real byte-wise comparison"),
    B("q_elem_axioms", "h_q_elem_axioms", "queue order axioms with real byte-wise comparison", tiers=("thorough",)),
]
EXPLANATION = ("msg_is_before / msg_is_before_extended / q_elem_is_before are loop-free; the harness #includes the real msg.h and "
               "msg_queue.c and invokes the macros through one-line wrappers. With memcmp replaced by a ghost-rank contract "
               "(total preorder depending on the bytes only) the four strict-weak-order axioms, agreement of the queue order, and "
               "content-only (by self-composition, with every other field and the allocation order havocked) are discharged for "
               "all timestamps (non-NaN), flags, types, sizes and unbounded payloads. The same lemmas are re-checked with CBMC's "
               "byte-wise memcmp for payloads <= 40 bytes (bounded, counted separately).")
ASSUMPTIONS = ["timestamps are not NaN (a NaN timestamp makes incomparability non-transitive; valid models do not produce it)",
               "memcmp on equal-length buffers is a total preorder determined by the bytes (ghost-rank stub) in the unbounded harnesses"]
LEVEL_TEXT = ("Deductive proof over all triples of events: strict-weak-order axioms and content-only tie-break of the real comparator "
              "text, unbounded payload under a ghost-rank memcmp contract; byte-exact cross-check bounded to 40-byte payloads.")
LEVEL_NOTE = "Trusted: CBMC; memcmp as total preorder on bytes (unbounded harnesses) / CBMC's memcmp model (bounded harnesses); non-NaN timestamps."
TECHNIQUE = "CBMC function contract + lemma harnesses (self-composition) on the real msg.h / msg_queue.c comparator text"
DESIGN_REF = "DESIGN.md §4 C16"
