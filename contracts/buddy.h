/* contracts/buddy.h - abstract view, representation invariant and function contracts of one buddy arena
 * (src/mm/buddy/buddy.c; properties C12, C05, C11). Included after the real buddy.c.
 *
 * Shapes are taken from the code, not from documentation:
 *   node i of the implicit binary tree has size exponent lev(i) = B_TOTAL_EXP - floor(log2(i+1)) and covers
 *   base_mem[off(i), off(i) + 2^lev(i)), off(i) = ((i+1) << lev(i)) - 2^B_TOTAL_EXP;
 *   longest[i] is  lev(i)            if the whole node is free            (then both children are entirely free),
 *                  0                  if the node is allocated as a whole  (children keep their 'entirely free' values),
 *                  max(left, right)   otherwise (so it is also 0 when both children are 0).
 * A block is LIVE at node i iff longest[i] == 0 and (i is a leaf or its left child is entirely free).
 */
#ifndef VERIF_CONTRACT_BUDDY_H
#define VERIF_CONTRACT_BUDDY_H

#define B_NODES ((1U << (B_TOTAL_EXP - B_BLOCK_EXP + 1)) - 1U)
#define B_LEAF0 ((1U << (B_TOTAL_EXP - B_BLOCK_EXP)) - 1U)
#define B_TOTAL (1U << B_TOTAL_EXP)

static inline unsigned b_lev(uint32_t i)
{
	return B_TOTAL_EXP - (31U - (unsigned)__builtin_clz(i + 1U));
}
static inline uint32_t b_off(uint32_t i)
{
	return ((i + 1U) << b_lev(i)) - B_TOTAL;
}
/* node that a block of size 2^e at byte offset off occupies */
static inline uint32_t b_node(uint32_t off, unsigned e)
{
	return (off >> e) + (1U << (B_TOTAL_EXP - e)) - 1U;
}
static inline bool b_wf_node(const uint8_t *lon, uint32_t i)
{
	unsigned l = b_lev(i);
	unsigned v = lon[i];
	if(i >= B_LEAF0)
		return v == 0 || v == l;
	unsigned a = lon[buddy_left_child(i)], b = lon[buddy_right_child(i)];
	bool kids_free = (a == l - 1 && b == l - 1);
	if(kids_free)
		return v == l || v == 0;
	return a <= l - 1 && b <= l - 1 && v == (a > b ? a : b);
}
static inline bool b_wf(const struct buddy_state *s)
{
	for(uint32_t i = 0; i < B_NODES; i++)
		if(!b_wf_node(s->longest, i))
			return false;
	return true;
}
static inline bool b_live(const uint8_t *lon, uint32_t i)
{
	return lon[i] == 0 && (i >= B_LEAF0 || lon[buddy_left_child(i)] == b_lev(i) - 1);
}
static inline bool b_disjoint(uint32_t i, uint32_t j)
{
	uint32_t oi = b_off(i), oj = b_off(j);
	return oi + (1U << b_lev(i)) <= oj || oj + (1U << b_lev(j)) <= oi;
}

/* ghosts: a rigid arbitrary node (a fact proved for it holds for every node) and facts about the pre-state that
 * cannot be written with __CPROVER_old (function calls are not allowed inside it) */
extern uint32_t verif_g;
extern bool verif_g_live_before;
extern uint8_t verif_g_val_before;
extern uint8_t verif_root_before;
extern uint32_t verif_n; /* the node of the block handed to buddy_free / realloc */

#define B_RET_OFF ((uint32_t)((char *)__CPROVER_return_value - (char *)self->base_mem))

/* The postconditions of buddy_malloc / buddy_free can be enforced all at once (C12_SLICE undefined or 0) or in three
 * slices, each a separate solver query over the same pre-state (all well-formed trees): 1 = representation invariant,
 * 2 = result/placement clauses, 3 = live-set clauses (ghost node). The union of the slices is the full contract. */
#ifndef C12_SLICE
#define C12_SLICE 0
#endif
#if C12_SLICE == 0 || C12_SLICE == 1
#define ENS_WF(e) __CPROVER_ensures(e)
#else
#define ENS_WF(e)
#endif
#if C12_SLICE == 0 || C12_SLICE == 2
#define ENS_PLACE(e) __CPROVER_ensures(e)
#else
#define ENS_PLACE(e)
#endif
#if C12_SLICE == 0 || C12_SLICE == 3
#define ENS_LIVE(e) __CPROVER_ensures(e)
#else
#define ENS_LIVE(e)
#endif

void buddy_init(struct buddy_state *self)
__CPROVER_requires(__CPROVER_rw_ok(self, sizeof(*self)))
__CPROVER_requires(verif_g < B_NODES)
__CPROVER_assigns(__CPROVER_object_upto(self->longest, sizeof(self->longest)))
__CPROVER_ensures(b_wf(self))
__CPROVER_ensures(self->longest[verif_g] == b_lev(verif_g)) /* every node entirely free */
;

void *buddy_malloc(struct buddy_state *self, uint_fast8_t req_blks_exp)
__CPROVER_requires(__CPROVER_rw_ok(self, sizeof(*self)))
__CPROVER_requires(B_BLOCK_EXP <= req_blks_exp && req_blks_exp <= B_TOTAL_EXP)
__CPROVER_requires(b_wf(self))
__CPROVER_requires(verif_g < B_NODES)
__CPROVER_requires(verif_g_live_before == b_live(self->longest, verif_g) && verif_g_val_before == self->longest[verif_g] &&
		   verif_root_before == self->longest[0])
/* frame: only the allocation tree; in particular no byte of any block changes */
__CPROVER_assigns(__CPROVER_object_upto(self->longest, sizeof(self->longest)))
ENS_WF(b_wf(self))
/* fails exactly when no free block of the class exists, and then changes nothing */
ENS_PLACE((__CPROVER_return_value == NULL) == (verif_root_before < req_blks_exp))
ENS_PLACE(__CPROVER_return_value == NULL ==> self->longest[verif_g] == verif_g_val_before)
/* inside the arena, aligned to its size */
ENS_PLACE(__CPROVER_return_value != NULL ==>
	(__CPROVER_same_object(__CPROVER_return_value, self) && (char *)__CPROVER_return_value >= (char *)self->base_mem &&
	 B_RET_OFF + (1U << req_blks_exp) <= B_TOTAL && (B_RET_OFF & ((1U << req_blks_exp) - 1U)) == 0))
/* the block is now live at its node */
ENS_LIVE(__CPROVER_return_value != NULL ==> b_live(self->longest, b_node(B_RET_OFF, req_blks_exp)))
/* it was not live before, it overlaps no block that was live before, and every such block stays live */
ENS_LIVE((__CPROVER_return_value != NULL && verif_g_live_before) ==>
	(verif_g != b_node(B_RET_OFF, req_blks_exp) && b_disjoint(verif_g, b_node(B_RET_OFF, req_blks_exp)) &&
	 b_live(self->longest, verif_g)))
/* and nothing else became live */
ENS_LIVE((__CPROVER_return_value != NULL && !verif_g_live_before && verif_g != b_node(B_RET_OFF, req_blks_exp)) ==>
	!b_live(self->longest, verif_g))
;

uint_fast32_t buddy_free(struct buddy_state *self, void *ptr)
__CPROVER_requires(__CPROVER_rw_ok(self, sizeof(*self)))
__CPROVER_requires(b_wf(self))
__CPROVER_requires(verif_g < B_NODES && verif_n < B_NODES)
/* ptr is the start of a live block (the block at node verif_n) */
__CPROVER_requires(b_live(self->longest, verif_n) && ptr == (void *)(self->base_mem + b_off(verif_n)))
__CPROVER_requires(verif_g_live_before == b_live(self->longest, verif_g))
__CPROVER_assigns(__CPROVER_object_upto(self->longest, sizeof(self->longest)))
ENS_WF(b_wf(self))
ENS_PLACE(__CPROVER_return_value == (uint_fast32_t)1U << b_lev(verif_n))
/* exactly that block stops being live */
ENS_LIVE(!b_live(self->longest, verif_n))
ENS_LIVE(verif_g != verif_n ==> b_live(self->longest, verif_g) == verif_g_live_before)
/* the space is reusable: a request of the same class cannot fail now (see buddy_malloc's NULL clause) */
ENS_PLACE(self->longest[0] >= b_lev(verif_n))
;

struct buddy_realloc_res buddy_best_effort_realloc(struct buddy_state *self, void *ptr, size_t req_size)
__CPROVER_requires(__CPROVER_rw_ok(self, sizeof(*self)))
__CPROVER_requires(b_wf(self))
__CPROVER_requires(verif_n < B_NODES)
__CPROVER_requires(b_live(self->longest, verif_n) && ptr == (void *)(self->base_mem + b_off(verif_n)))
__CPROVER_assigns()
/* handled in place only when the block already has the right size class; otherwise it reports the block's size */
__CPROVER_ensures(__CPROVER_return_value.handled ==> (__CPROVER_return_value.variation == 0 &&
	((size_t)1 << b_lev(verif_n)) >= req_size))
__CPROVER_ensures(!__CPROVER_return_value.handled ==> __CPROVER_return_value.original == (uint_fast32_t)1U << b_lev(verif_n))
;

#endif
