#!/usr/bin/env python3
"""Confirm and archive a seeded breaking change produced by an independent sub-agent.
usage: seed.py <PROPERTY_ID> <out_dir> <mutated_worktree> <name> [check ids...]
 - demo must FAIL on the mutated worktree and PASS on the unchanged /repo
 - the existing test suite must pass in the mutated worktree
 - the listed checks are run against the mutated worktree (VERIF_REPO) and their verdicts recorded
"""
import json, os, shutil, subprocess, sys, time
pid, out, wt, name = sys.argv[1:5]
checks = sys.argv[5:] or [pid]
dst = f"/verif/seeded/{name}"
os.makedirs(dst, exist_ok=True)
for f in os.listdir(out):
    if f.endswith((".diff", ".c", ".sh", ".md", ".h")):
        shutil.copy(os.path.join(out, f), dst)
def run(cmd, **kw):
    p = subprocess.run(cmd, shell=True, stdout=subprocess.PIPE, stderr=subprocess.STDOUT, **kw)
    return p.returncode, p.stdout.decode(errors="replace")
meta = dict(property=pid, name=name, source="independent sub-agent given only the property text and a scratch worktree")
rc_mut, o1 = run(f"sh {dst}/run_demo.sh {wt}")
rc_clean, o2 = run(f"sh {dst}/run_demo.sh /repo")
meta["demo_on_mutant_rc"] = rc_mut
meta["demo_on_unchanged_rc"] = rc_clean
meta["demo_on_mutant_tail"] = o1[-600:]
old_meta = os.path.join(dst, "meta.json")
if os.environ.get("SEED_SKIP_TESTS") == "1" and os.path.exists(old_meta):
    # re-validation after a check was strengthened: keep the recorded test-suite result and the first verdict
    om = json.load(open(old_meta))
    meta["test_suite_with_change"] = om["test_suite_with_change"]
    meta["first_verdict_before_strengthening"] = om.get("first_verdict_before_strengthening", om["checks_on_mutant"])
else:
    rc_t, o3 = run(f"cmake --build {wt}/_build >/dev/null 2>&1; ctest --test-dir {wt}/_build -j4 --timeout 900 2>&1 | tail -6")
    meta["test_suite_with_change"] = o3[-500:]
res = {}
for c in checks:
    t0 = time.time()
    rc, o = run(f"VERIF_REPO={wt} timeout 3000 /verif/check {c} --no-evidence", cwd="/verif")
    lines = [l for l in o.splitlines() if l.startswith("VIOLATION") or l.startswith("UNDECIDED") or l.startswith("OK") or "refuted" in l]
    res[c] = dict(exit=rc, seconds=round(time.time() - t0), lines=[l[:400] for l in lines][:12])
meta["checks_on_mutant"] = res
meta["caught"] = any(v["exit"] == 1 for v in res.values())
meta["what_ran"] = [f"sh run_demo.sh {wt}  (mutant)", "sh run_demo.sh /repo  (unchanged)", f"ctest in {wt}/_build", ] + [f"VERIF_REPO={wt} ./check {c}" for c in checks]
readme = os.path.join(dst, "README.md")
meta["needs_to_manifest"] = open(readme).read()[:1500] if os.path.exists(readme) else ""
json.dump(meta, open(os.path.join(dst, "meta.json"), "w"), indent=1)
print(json.dumps({k: meta[k] for k in ("demo_on_mutant_rc", "demo_on_unchanged_rc", "caught")}), meta["test_suite_with_change"][-200:])
for c, v in res.items():
    print(c, v["exit"], v["lines"][:3])
