/* C16 - event order is a strict weak order with content-only tie-break.
 * Real text under test: msg_is_before (macro), msg_is_before_extended (inline), q_elem_is_before (macro). */
#include "verif_harness.h"
#include "datatypes/msg_queue.c"
#ifndef VERIF_NATIVE
#include "contracts/msg_order.h"
#endif

#ifndef C16_MAXPL
#define C16_MAXPL 40
#endif

/* ---- environment (never reached by the comparators; only to link the translation unit natively) */
#ifdef VERIF_NATIVE
struct simulation_configuration global_config;
uint64_t lid_node_first;
lp_id_t n_lps_node;
__thread rid_t rid;
void msg_allocator_free(struct lp_msg *m) { (void)m; }
void vlogger(enum log_level l, char *f, unsigned n, const char *fmt, ...) { (void)l; (void)f; (void)n; (void)fmt; }
#endif

/* the macros, invoked exactly as the repository does */
static bool w_msg_is_before(const struct lp_msg *a, const struct lp_msg *b) { return msg_is_before(a, b); }
static bool w_q_elem_is_before(struct q_elem ma, struct q_elem mb) { return q_elem_is_before(ma, mb); }

/* ---- payload comparison
 * C16_GHOST_MEMCMP: memcmp on two equally long buffers is a total preorder that depends on the bytes only; it is
 * modelled by a ghost rank per buffer (VERIF_STUB memcmp; ASSUMED: memcmp is the lexicographic order on bytes).
 * Payload length is then unbounded. Without the macro CBMC's own memcmp model is used, payload <= C16_MAXPL bytes. */
#if defined(C16_GHOST_MEMCMP) && !defined(VERIF_NATIVE)
static const void *g_buf[6];
static unsigned g_rank[6];
static unsigned g_n;
static unsigned rank_of(const void *p)
{
	for(unsigned i = 0; i < 6; i++)
		if(i < g_n && g_buf[i] == p)
			return g_rank[i];
	__CPROVER_assert(0, "C16.memcmp called on a buffer that is not a message payload");
	return 0;
}
int memcmp(const void *s1, const void *s2, size_t n)
{
	__CPROVER_assert(__CPROVER_r_ok(s1, n), "C16.memcmp reads stay inside the first message buffer");
	__CPROVER_assert(__CPROVER_r_ok(s2, n), "C16.memcmp reads stay inside the second message buffer");
	if(n == 0)
		return 0;
	unsigned r1 = rank_of(s1), r2 = rank_of(s2);
	return (r1 > r2) - (r1 < r2);
}
#define REGISTER(m, r)                                                                                                 \
	do {                                                                                                           \
		g_buf[g_n] = (m)->pl;                                                                                  \
		g_rank[g_n] = (r);                                                                                     \
		g_n++;                                                                                                 \
	} while(0)
#else
#define REGISTER(m, r) ((void)0)
#endif

struct msg_in {
	simtime_t t;
	uint32_t flags, type, pls, seq;
	lp_id_t dest;
	unsigned rank;
};

static struct lp_msg *mk_msg(struct msg_in in, const unsigned char *bytes)
{
	size_t pls = in.pls;
#if !defined(C16_GHOST_MEMCMP) || defined(VERIF_NATIVE)
	VASSUME(pls <= C16_MAXPL);
#endif
	struct lp_msg *m = malloc(offsetof(struct lp_msg, pl) + (pls > MSG_PAYLOAD_BASE_SIZE ? pls : MSG_PAYLOAD_BASE_SIZE));
	VASSUME(m != NULL);
	m->dest_t = in.t;
	m->raw_flags = in.flags;
	m->m_type = in.type;
	m->pl_size = in.pls;
	m->m_seq = in.seq;
	m->dest = in.dest;
	m->next = NULL;
#if !defined(C16_GHOST_MEMCMP) || defined(VERIF_NATIVE)
	for(size_t i = 0; i < C16_MAXPL; i++)
		if(i < pls)
			m->pl[i] = bytes[i];
#else
	(void)bytes;
	REGISTER(m, in.rank);
#endif
	return m;
}

#define THREE_MSGS()                                                                                                   \
	VIN(struct msg_in, ia);                                                                                        \
	VIN(struct msg_in, ib);                                                                                        \
	VIN(struct msg_in, ic);                                                                                        \
	VIN_ARR(unsigned char, pa, C16_MAXPL);                                                                         \
	VIN_ARR(unsigned char, pb, C16_MAXPL);                                                                         \
	VIN_ARR(unsigned char, pc, C16_MAXPL);                                                                         \
	VASSUME(ia.t == ia.t && ib.t == ib.t && ic.t == ic.t); /* timestamps of a valid model are not NaN */           \
	struct lp_msg *a = mk_msg(ia, pa), *b = mk_msg(ib, pb), *c = mk_msg(ic, pc)

/* strict weak order axioms of msg_is_before */
void h_order_axioms(void)
{
	THREE_MSGS();
	bool ab = w_msg_is_before(a, b), ba = w_msg_is_before(b, a), bc = w_msg_is_before(b, c),
	     cb = w_msg_is_before(c, b), ac = w_msg_is_before(a, c), ca = w_msg_is_before(c, a);
	VASSERT(!w_msg_is_before(a, a), "C16.irreflexive");
	VASSERT(!(ab && ba), "C16.asymmetric");
	VASSERT(!(ab && bc) || ac, "C16.transitive");
	VASSERT(!(!ab && !ba && !bc && !cb) || (!ac && !ca), "C16.incomparability is transitive");
	VCANARY("h_order_axioms reachable");
	VCOVER(ia.t == ib.t && ia.pls == ib.pls && ia.pls > 32 && ab, "h_order_axioms covers tie decided by payload bytes beyond 32");
}

/* same four axioms for the queue element order, under the element invariant qe.t == qe.m->dest_t */
void h_q_elem_axioms(void)
{
	THREE_MSGS();
	struct q_elem qa = {.t = a->dest_t, .m = a}, qb = {.t = b->dest_t, .m = b}, qc = {.t = c->dest_t, .m = c};
	bool ab = w_q_elem_is_before(qa, qb), ba = w_q_elem_is_before(qb, qa), bc = w_q_elem_is_before(qb, qc),
	     cb = w_q_elem_is_before(qc, qb), ac = w_q_elem_is_before(qa, qc), ca = w_q_elem_is_before(qc, qa);
	VASSERT(!w_q_elem_is_before(qa, qa), "C16.q irreflexive");
	VASSERT(!(ab && ba), "C16.q asymmetric");
	VASSERT(!(ab && bc) || ac, "C16.q transitive");
	VASSERT(!(!ab && !ba && !bc && !cb) || (!ac && !ca), "C16.q incomparability is transitive");
	VASSERT(ab == w_msg_is_before(a, b), "C16.q queue order agrees with msg_is_before");
	VCANARY("h_q_elem_axioms reachable");
}

/* content only: a2/b2 agree with a/b on (dest_t, ANTI flag, m_type, pl_size, payload) and differ arbitrarily in every
 * other field (next, dest, m_seq, remaining flag bits) and in their addresses; the verdicts must agree */
void h_content_only(void)
{
	VIN(struct msg_in, ia);
	VIN(struct msg_in, ib);
	VIN(struct msg_in, ia2);
	VIN(struct msg_in, ib2);
	VIN_ARR(unsigned char, pa, C16_MAXPL);
	VIN_ARR(unsigned char, pb, C16_MAXPL);
	VIN(bool, swap_alloc);
	VASSUME(ia.t == ia.t && ib.t == ib.t);
	VASSUME(ia2.t == ia.t && (ia2.flags & MSG_FLAG_ANTI) == (ia.flags & MSG_FLAG_ANTI) && ia2.type == ia.type &&
		ia2.pls == ia.pls && ia2.rank == ia.rank);
	VASSUME(ib2.t == ib.t && (ib2.flags & MSG_FLAG_ANTI) == (ib.flags & MSG_FLAG_ANTI) && ib2.type == ib.type &&
		ib2.pls == ib.pls && ib2.rank == ib.rank);
	struct lp_msg *a, *b, *a2, *b2;
	if(swap_alloc) { /* allocation (address) order is arbitrary */
		b2 = mk_msg(ib2, pb);
		a2 = mk_msg(ia2, pa);
		b = mk_msg(ib, pb);
		a = mk_msg(ia, pa);
	} else {
		a = mk_msg(ia, pa);
		b = mk_msg(ib, pb);
		a2 = mk_msg(ia2, pa);
		b2 = mk_msg(ib2, pb);
	}
	a->next = b2;
	b2->next = a;
	VASSERT(w_msg_is_before(a, b) == w_msg_is_before(a2, b2),
	    "C16.content-only verdict is a function of (time, ANTI flag, type, payload size, payload bytes)");
	struct q_elem qa = {.t = a->dest_t, .m = a}, qb = {.t = b->dest_t, .m = b}, qa2 = {.t = a2->dest_t, .m = a2},
		      qb2 = {.t = b2->dest_t, .m = b2};
	VASSERT(w_q_elem_is_before(qa, qb) == w_q_elem_is_before(qa2, qb2), "C16.content-only queue order likewise");
	VCANARY("h_content_only reachable");
}

/* contract of the inline comparator: pure, reads inside the buffers, field precedence */
void h_extended_contract(void)
{
	VIN(struct msg_in, ia);
	VIN(struct msg_in, ib);
	VIN_ARR(unsigned char, pa, C16_MAXPL);
	VIN_ARR(unsigned char, pb, C16_MAXPL);
#if defined(C16_GHOST_MEMCMP) && !defined(VERIF_NATIVE)
	g_n = 0;
#endif
	struct lp_msg *a = mk_msg(ia, pa), *b = mk_msg(ib, pb);
	bool r = msg_is_before_extended(a, b);
	(void)r;
	VCANARY("h_extended_contract reachable");
}
