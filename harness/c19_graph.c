/* C19 - TOPOLOGY_GRAPH: AddTopologyLink / GetReceiver / IsNeighbor / CountDirections of topology.c (real text) on
 * adjacency lists built by the real AddTopologyLink. Bounded: NR regions, at most NLINK link insertions. */
#include "verif_harness.h"
#include <stdlib.h>
#include <string.h>
#include "lp/lp.h"
#include "lib/topology/topology.c"

#define NR 3
#ifndef NLINK
#define NLINK 3
#endif

__thread struct lp_ctx *current_lp;
#ifndef VERIF_NATIVE
/* VERIF_STUB Random(): any value its contract allows (C18) */
double nondet_unit(void);
double Random(void)
{
	double r = nondet_unit();
	__CPROVER_assume(r >= 0.0 && r < 1.0);
	return r;
}
int RandomRange(int a, int b) { (void)b; return a; }
#else
#include "lib/random/random.c"
#include "lib/random/xxtea.c"
struct simulation_configuration global_config;
#endif

static struct topology T;
static struct list lists[NR];
static struct graph_node *adj[NR];

void h_graph(void)
{
	VIN(unsigned, n_links);
	VIN_ARR(lp_id_t, in_from, NLINK);
	VIN_ARR(lp_id_t, in_to, NLINK);
	VIN_ARR(double, in_p, NLINK);
	VIN(lp_id_t, from);
	VIN(lp_id_t, to);
	VASSUME(n_links <= NLINK && from < NR && to < NR);
#ifdef VERIF_NATIVE
	static struct lp_ctx lp; static struct rng_ctx ctx; lp.rng_ctx = &ctx; current_lp = &lp;
#endif
	memset(&T, 0, sizeof(T));
	T.geometry = TOPOLOGY_GRAPH;
	T.regions = NR;
	for(unsigned r = 0; r < NR; r++) {
		memset(&lists[r], 0, sizeof(lists[r]));
		adj[r] = (struct graph_node *)&lists[r];
	}
	T.adjacency = adj;
	bool linked[NR][NR];
	memset(linked, 0, sizeof(linked));
	for(unsigned k = 0; k < NLINK; k++)
		if(k < n_links) {
			VASSUME(in_from[k] < NR && in_to[k] < NR && in_p[k] >= 0.0 && in_p[k] <= 1.0);
			bool ok = AddTopologyLink(&T, in_from[k], in_to[k], in_p[k]);
			VASSERT(ok, "C19.graph a link with a probability in [0,1] is accepted");
			linked[in_from[k]][in_to[k]] = true;
		}
	unsigned n_out = 0;
	for(unsigned r = 0; r < NR; r++)
		n_out += linked[from][r];
	VASSERT(CountDirections(from, &T) == n_out, "C19.graph CountDirections equals the number of (distinct) links added from that region");
	VASSERT(IsNeighbor(from, to, &T) == linked[from][to], "C19.graph IsNeighbor confirms exactly the links that were added");
	lp_id_t r = GetReceiver(from, &T, DIRECTION_RANDOM);
	VASSERT((r == INVALID_DIRECTION) == (n_out == 0), "C19.graph DIRECTION_RANDOM finds a neighbour exactly when the region has an outgoing link");
	VASSERT(r == INVALID_DIRECTION || (r < NR && linked[from][r]), "C19.graph the random receiver is a linked region of the topology");
	VASSERT(GetReceiver(from, &T, DIRECTION_E) == INVALID_DIRECTION, "C19.graph fixed directions do not exist in a graph");
	VCANARY("h_graph reachable");
	VCOVER(n_out == 2, "h_graph covers a region with two outgoing links");
}
