# C13 - fossil collection never discards what a legal rollback can need.
LEVEL = "proof"
def collect(cap, tiers, to):
    return H(name=f"C13.alloc_collect.len{cap}", file="harness/c13_fossil.c", entry="h_fossil_collect", enforce="model_allocator_fossil_lp_collect",
      funcs=["model_allocator_fossil_lp_collect", "array_truncate_first"], loops=True, expect_loops=3, kind="proof", canaries=2,
      defs=(f"C13_MAXCAP={cap}U",), tiers=tiers,
      unwindset=("h_fossil_collect.0:10",), timeout=to, mem_gb=16, objbits=8,
      desc=f"log table of symbolic length (count <= capacity <= {cap}, arbitrary content), NO unwinding of the table loops: returns the reference of the first kept slot, <= target; every later slot > target (newest such checkpoint); >= 1 slot kept; kept slots shifted and rebased (ghost slot); number of releases == number of dropped slots; frame = log table only. Loops closed by ghost-index invariants + decreases (termination proved)")
BOUNDED = H(name="C13.alloc_collect.le4", file="harness/c13_fossil.c", entry="h_fossil_collect", enforce="model_allocator_fossil_lp_collect",
      funcs=["model_allocator_fossil_lp_collect", "array_truncate_first"], kind="bounded", bound="log table of at most 4 slots, loops unwound, exact memmove, CBMC's real free()",
      canaries=2, defs=("C13_BOUNDED", "C13_MAXCAP=4U"),
      unwindset=("h_fossil_collect.0:10", "model_allocator_fossil_lp_collect.0:6", "model_allocator_fossil_lp_collect.1:6", "model_allocator_fossil_lp_collect.2:6", "model_allocator_fossil_lp_collect.3:6", "memmove.0:66", "free.0:17", "was_released.0:17"),
      timeout=900, mem_gb=16, objbits=8,
      desc="same contract on every table of <= 4 slots with distinct live checkpoints: additionally every dropped checkpoint is released exactly once (double free = CBMC error) and no kept one is")
HARNESSES = [BOUNDED, collect(1024, ("quick", "thorough"), 3600)]
EXPLANATION = "Allocator side: model_allocator_fossil_lp_collect of the real multi.c is checked against its contract: at least one checkpoint is kept, the returned cut is the reference of the first kept checkpoint and is not after the committed frontier, every later checkpoint is after it (so the kept one is the newest usable one), kept slots are shifted and rebased by the cut (slot 0 gets reference 0), exactly the dropped checkpoints are released. Quick: every table of <= 4 slots (loops unwound, exact memmove, ghost free table: no double/missing release). Thorough: table of symbolic length <= 1024 with the loops closed by ghost-index loop invariants and decreases clauses (no unwinding over the table; proof). History side (fossil_lp_collect of fossil.c, bounded histories): the frontier handed to the allocator is just after the last processed event below the GVT, events at/above GVT are kept, the released prefix has exactly the returned length, the kept history starts at the kept checkpoint, released buffers are the non-locally-sent ones. Together with C05's restore precondition (a checkpoint not after the target exists) every rollback to a point at/above GVT still finds its checkpoint."
ASSUMPTIONS = ['memmove/free as stubs in the invariant-based harness (ghost slot copied exactly, releases counted); exact byte loop + ghost free table in the bounded one', 'history length bounded on the fossil.c side']
LEVEL_TEXT = 'Deductive proof of the allocator-side collection for log tables of symbolic length (ghost-index loop invariants, thorough tier) plus bounded exact checks (quick tier) and bounded history-side contract checks.'
LEVEL_NOTE = 'Trusted: CBMC loop-contract instrumentation; memmove/free stubs; the quick tier is bounded (<= 4 slots, histories <= 4).'
TECHNIQUE = 'CBMC function + loop contracts (ghost-index invariants through VERIF_LOOP hooks) on the real multi.c; bounded harness on fossil.c'
DESIGN_REF = "DESIGN.md §4 C13"

import importlib.util as _ilu, os as _os
_sp = _ilu.spec_from_file_location("spec_C06_for_C13", _os.path.join(_os.path.dirname(__file__), "C06.py"))
_m = _ilu.module_from_spec(_sp); _m.H = H; _sp.loader.exec_module(_m)
HARNESSES = HARNESSES + [
    _m.P("C13.fossil_history", "h_fossil", "fossil_lp_collect: frontier just after the last processed event below GVT; events >= GVT kept; released prefix == allocator's cut; kept history starts at the kept checkpoint; ownership of released buffers", 4, ("quick",), canaries=2, funcs=["fossil_lp_collect"]),
    _m.P("C13.fossil_history", "h_fossil", "same, histories <= 5", 5, ("thorough",), canaries=2, to=3600, funcs=["fossil_lp_collect"]),
]
