/* C15 (and C06/C11 anchors) - inter-thread message queue: src/datatypes/msg_queue.c with heap.h / array.h (real text).
 * Bounded: private heap <= QH elements, shared buffer list <= QL nodes (stated in the evidence). */
#ifdef Q_INTERFERENCE
/* loop contract of the CAS retry loop: everything the loop may touch; no progress claim */
#define VERIF_LOOP_insert_cas                                                                                          \
	__CPROVER_assigns(msg->next, *list_p, verif_lin_done, verif_lin_old_head, verif_env_steps)                     \
	__CPROVER_loop_invariant(!verif_lin_done)
#endif
#include "verif_harness.h"
#include <stdlib.h>
#include <stdatomic.h>
#include "lp/msg.h"
#ifdef Q_INTERFERENCE
/* VERIF_STUB C11 atomics with interference (rely/guarantee on ONE word): before every atomic step on the list head the
 * environment (other producers pushing, the consumer swapping the list out) may replace the word by anything;
 * the weak CAS may also fail spuriously. The success point is the linearisation point and is recorded in ghosts. */
static bool verif_lin_done;
static struct lp_msg *verif_lin_old_head;
static unsigned verif_env_steps;
struct lp_msg *nondet_env_head(void);
bool nondet_spurious(void);
static struct lp_msg *verif_env_load(_Atomic(struct lp_msg *) *obj)
{
	*obj = nondet_env_head();
	verif_env_steps++;
	return *obj;
}
static bool verif_env_cas(_Atomic(struct lp_msg *) *obj, struct lp_msg **expected, struct lp_msg *desired)
{
	*obj = nondet_env_head(); /* environment step */
	verif_env_steps++;
	struct lp_msg *cur = *obj;
	if(cur == *expected && !nondet_spurious()) {
		verif_lin_old_head = cur;
		*obj = desired;
		verif_lin_done = true;
		return true;
	}
	*expected = cur;
	return false;
}
#undef atomic_load_explicit
#undef atomic_compare_exchange_weak_explicit
#define atomic_load_explicit(obj, mo) verif_env_load(obj)
#define atomic_compare_exchange_weak_explicit(obj, exp, des, mo1, mo2) verif_env_cas((obj), (exp), (des))
#endif
#include "datatypes/msg_queue.c"

#ifndef QH
#define QH 4
#endif
#ifndef QL
#define QL 3
#endif
#define QCAP 16
#ifndef QPL
#define QPL 40 /* largest payload size generated */
#endif

struct simulation_configuration global_config;
uint64_t lid_node_first;
lp_id_t n_lps_node;
__thread rid_t rid;
#ifdef VERIF_NATIVE
void vlogger(enum log_level l, char *f, unsigned n, const char *fmt, ...) { (void)l; (void)f; (void)n; (void)fmt; }
#endif

#ifndef VERIF_NATIVE
/* VERIF_STUB realloc: the private heap is given a capacity (QCAP) that the bounded scenarios never exhaust; the stub
 * turns "never reallocates here" into a checked obligation instead of paying for CBMC's symbolic-size memcpy. */
void *realloc(void *p, size_t n)
{
	(void)n;
	__CPROVER_assert(0, "C15.harness capacity suffices: array_reserve never reallocates in this bounded scenario");
	return p;
}
#endif

/* VERIF_STUB msg_allocator_free: really releases the buffer (so a later read or second release is a CBMC/ASan
 * error) and counts releases. The pooling of small buffers done by the real allocator is covered in C11. */
static unsigned verif_frees;
void msg_allocator_free(struct lp_msg *msg)
{
	verif_frees++;
	free(msg);
}

#if !defined(VERIF_NATIVE) && !defined(Q_REAL_MEMCMP)
/* VERIF_STUB memcmp (ASSUMED total preorder on equal-length buffers, see C16): ghost rank per payload buffer */
static const void *g_buf[8];
static unsigned g_rank[8];
static unsigned g_n;
int memcmp(const void *s1, const void *s2, size_t n)
{
	unsigned r1 = 0, r2 = 0;
	if(n == 0)
		return 0;
	for(unsigned i = 0; i < 8; i++) {
		if(i < g_n && g_buf[i] == s1)
			r1 = g_rank[i];
		if(i < g_n && g_buf[i] == s2)
			r2 = g_rank[i];
	}
	return (r1 > r2) - (r1 < r2);
}
unsigned nondet_rank(void);
#define REGISTER_PL(m) do { g_buf[g_n] = (m)->pl; g_rank[g_n] = nondet_rank(); g_n++; } while(0)
#else
#define REGISTER_PL(m) ((void)0)
#endif

static struct lp_msg *mk(simtime_t t, uint32_t pls)
{
	struct lp_msg *m = malloc(offsetof(struct lp_msg, pl) + (pls > MSG_PAYLOAD_BASE_SIZE ? pls : MSG_PAYLOAD_BASE_SIZE));
	VASSUME(m != NULL);
	m->dest_t = t;
	m->pl_size = pls;
	m->raw_flags = 0;
	m->m_type = 0;
	m->dest = 0;
	m->next = NULL;
	REGISTER_PL(m);
	return m;
}

static struct lp_msg *all_msgs[QH + QL];
static unsigned n_heap, n_list;
static struct msg_buffer the_queues[1];

static bool q_before(struct q_elem a, struct q_elem b) { return q_elem_is_before(a, b); }

static bool heap_wf(void)
{
	for(unsigned i = 1; i < QH + QL; i++)
		if(i < heap_count(mqp)) {
			if(q_before(heap_items(mqp)[i], heap_items(mqp)[(i - 1) / 2]))
				return false;
			if(heap_items(mqp)[i].t != heap_items(mqp)[i].m->dest_t)
				return false;
		}
	return heap_count(mqp) == 0 || heap_items(mqp)[0].t == heap_items(mqp)[0].m->dest_t;
}
static unsigned heap_occurrences(const struct lp_msg *g)
{
	unsigned c = 0;
	for(unsigned i = 0; i < QH + QL; i++)
		if(i < heap_count(mqp) && heap_items(mqp)[i].m == g)
			c++;
	return c;
}

/* an arbitrary well-formed queue: n_heap <= QH messages in the private heap, n_list <= QL in the shared buffer */
#define QUEUE_SETUP()                                                                                                  \
	VIN(unsigned, in_nh);                                                                                          \
	VIN(unsigned, in_nl);                                                                                          \
	VIN_ARR(simtime_t, in_t, QH + QL);                                                                             \
	VIN_ARR(uint32_t, in_pls, QH + QL);                                                                            \
	VASSUME(in_nh <= QH && in_nl <= QL);                                                                           \
	n_heap = in_nh;                                                                                                \
	RESET_RANKS();                                                                                                 \
	n_list = in_nl;                                                                                                \
	rid = 0;                                                                                                       \
	global_config.n_threads = 1;                                                                                   \
	queues = the_queues;                                                                                           \
	mqp.items = malloc(QCAP * sizeof(struct q_elem));                                                              \
	mqp.capacity = QCAP;                                                                                           \
	mqp.count = n_heap;                                                                                            \
	VASSUME(mqp.items != NULL);                                                                                    \
	for(unsigned k_ = 0; k_ < QH + QL; k_++) {                                                                     \
		VASSUME(in_t[k_] == in_t[k_]); /* timestamps are not NaN */                                            \
		all_msgs[k_] = mk(in_t[k_], in_pls[k_] <= QPL ? in_pls[k_] : QPL);                                      \
	}                                                                                                              \
	for(unsigned k_ = 0; k_ < QH; k_++)                                                                            \
		if(k_ < n_heap) {                                                                                      \
			mqp.items[k_].m = all_msgs[k_];                                                                \
			mqp.items[k_].t = all_msgs[k_]->dest_t;                                                        \
		}                                                                                                      \
	VASSUME(heap_wf());                                                                                            \
	struct lp_msg *head_ = NULL;                                                                                   \
	for(unsigned k_ = 0; k_ < QL; k_++)                                                                            \
		if(k_ < n_list) {                                                                                      \
			all_msgs[QH + k_]->next = head_;                                                               \
			head_ = all_msgs[QH + k_];                                                                     \
		}                                                                                                      \
	atomic_store_explicit(&queues[0].list, head_, memory_order_relaxed);                                           \
	verif_frees = 0

#if !defined(VERIF_NATIVE) && !defined(Q_REAL_MEMCMP)
#define RESET_RANKS() g_n = 0
#else
#define RESET_RANKS() ((void)0)
#endif
#define IN_QUEUE(k) (((k) < QH && (k) < n_heap) || ((k) >= QH && (k) - QH < n_list))

/* shutdown releases every queued buffer exactly once and never touches a released one (C06, C11) */
void h_fini(void)
{
	QUEUE_SETUP();
	msg_queue_fini();
	VASSERT(verif_frees == n_heap + n_list, "C15.fini every message still queued at shutdown is released exactly once");
	VCANARY("h_fini reachable");
	VCOVER(n_list >= 2 && in_pls[QH] > 32, "h_fini covers a buffered message with a large payload");
}

/* extraction: empty iff nothing was queued; otherwise a minimum of heap + buffer; nothing lost, nothing duplicated */
void h_extract(void)
{
	QUEUE_SETUP();
	VIN(unsigned, g);
	VASSUME(g < QH + QL);
	struct lp_msg *r = msg_queue_extract();
	VASSERT((r == NULL) == (n_heap + n_list == 0), "C15.extract returns NULL exactly when heap and buffer are empty");
	if(r != NULL) {
		bool found = false;
		for(unsigned k = 0; k < QH + QL; k++)
			if(IN_QUEUE(k) && all_msgs[k] == r)
				found = true;
		VASSERT(found, "C15.extract returns a message that was inserted");
		VASSERT(!IN_QUEUE(g) || !(all_msgs[g]->dest_t < r->dest_t), "C15.extract returns a smallest timestamp among the transferred messages");
		VASSERT(!IN_QUEUE(g) || heap_occurrences(all_msgs[g]) == (all_msgs[g] == r ? 0U : 1U),
		    "C15.extract every other message stays queued exactly once, the extracted one is gone");
	}
	VASSERT(heap_count(mqp) == n_heap + n_list - (r != NULL), "C15.extract element count");
	VASSERT(atomic_load_explicit(&queues[0].list, memory_order_relaxed) == NULL, "C15.extract buffer drained");
	VASSERT(heap_wf(), "C15.extract heap order and element invariant preserved");
	VCANARY("h_extract reachable");
	VCOVER(r != NULL && n_list == QL && n_heap == QH, "h_extract covers a full heap plus a full buffer");
}

/* the minimum-time query is a lower bound for everything queued, and SIMTIME_MAX only if nothing is */
void h_time_peek(void)
{
	QUEUE_SETUP();
	VIN(unsigned, g);
	VASSUME(g < QH + QL);
	simtime_t t = msg_queue_time_peek();
	VASSERT(!IN_QUEUE(g) || t <= all_msgs[g]->dest_t, "C15.peek is not larger than the timestamp of any queued message");
	VASSERT(n_heap + n_list != 0 || t == SIMTIME_MAX, "C15.peek of an empty queue is SIMTIME_MAX");
	VASSERT(!IN_QUEUE(g) || heap_occurrences(all_msgs[g]) == 1U, "C15.peek loses and duplicates nothing");
	VASSERT(heap_wf(), "C15.peek heap order preserved");
	VCANARY("h_time_peek reachable");
}

#ifdef Q_INTERFERENCE
/* msg_queue_insert under arbitrary interference on the list head: when it returns, its (single) successful CAS
 * installed msg as the head with msg->next == the head it replaced - so no concurrently pushed node is lost and the
 * node is linked exactly once. Queue selection indexes queues[] inside bounds. */
void h_insert_interference(void)
{
	VIN(unsigned, in_threads);
	VIN(uint64_t, in_first);
	VIN(lp_id_t, in_nlps);
	VIN(lp_id_t, in_dest);
	VASSUME(in_threads >= 1 && in_threads <= 4);
	VASSUME(in_nlps >= in_threads && in_nlps <= 64 && in_first <= 1000);
	VASSUME(in_dest >= in_first && in_dest - in_first < in_nlps); /* a locally hosted LP */
	static struct msg_buffer qs[4];
	queues = qs;
	global_config.n_threads = in_threads;
	lid_node_first = in_first;
	n_lps_node = in_nlps;
	RESET_RANKS();
	struct lp_msg *msg = mk(0.0, 0);
	msg->dest = in_dest;
	verif_lin_done = false;
	verif_env_steps = 0;
	msg_queue_insert(msg);
	rid_t q = lid_to_rid(in_dest);
	VASSERT(q < in_threads, "C15.insert queue index inside the queues vector");
	VASSERT(verif_lin_done, "C15.insert returns only after a successful CAS");
	VASSERT(qs[q].list == msg, "C15.insert at the linearisation point the list head is the inserted message");
	VASSERT(msg->next == verif_lin_old_head, "C15.insert the inserted node links to exactly the head it replaced (no pushed node lost)");
	VCANARY("h_insert_interference reachable");
	VCOVER(verif_env_steps > 2, "h_insert_interference covers a failed CAS followed by a retry");
}
#endif
