/* contracts/random.h - function contracts of src/lib/random/random.c (properties C18, C09, C11).
 * Included after "lib/random/random.c". The frame of every function is exactly the calling LP's generator state:
 * "each call advances only the calling LP's generator". */
#ifndef VERIF_CONTRACT_RANDOM_H
#define VERIF_CONTRACT_RANDOM_H
#include <float.h>
#include <limits.h>

#define RNG_VALID()                                                                                                    \
	(current_lp != NULL && __CPROVER_rw_ok(current_lp, sizeof(*current_lp)) && current_lp->rng_ctx != NULL &&       \
	    __CPROVER_rw_ok(current_lp->rng_ctx, sizeof(struct rng_ctx)))
#define RNG_FRAME __CPROVER_object_whole(current_lp->rng_ctx)

uint64_t RandomU64(void)
__CPROVER_requires(RNG_VALID())
__CPROVER_assigns(RNG_FRAME)
;

double Random(void)
__CPROVER_requires(RNG_VALID())
__CPROVER_assigns(RNG_FRAME)
__CPROVER_ensures(__CPROVER_return_value >= 0.0 && __CPROVER_return_value < 1.0)
/* by construction 2^-lzs * 1.m with lzs <= 64: never a tiny or denormal positive value (callers divide by it) */
__CPROVER_ensures(__CPROVER_return_value == 0.0 || __CPROVER_return_value >= 0x1p-64)
/* and never closer to 1 than one ulp of 0.5 (callers compute 1 - Random()) */
__CPROVER_ensures(__CPROVER_return_value <= 1.0 - 0x1p-53)
;

/* documented domain: min <= max and the number of values (max - min + 1) is representable as int */
int RandomRange(int min, int max)
__CPROVER_requires(RNG_VALID())
__CPROVER_requires(min <= max && (long)max - (long)min + 1 <= INT_MAX)
__CPROVER_assigns(RNG_FRAME)
__CPROVER_ensures(min <= __CPROVER_return_value && __CPROVER_return_value <= max)
;

int RandomRangeNonUniform(int x, int min, int max)
__CPROVER_requires(RNG_VALID())
__CPROVER_requires(0 <= x && x < INT_MAX && 0 <= min && min <= max && (long)max - (long)min + 1 <= INT_MAX)
__CPROVER_assigns(RNG_FRAME)
__CPROVER_ensures(min <= __CPROVER_return_value && __CPROVER_return_value <= max)
;

double Poisson(void)
__CPROVER_requires(RNG_VALID())
__CPROVER_assigns(RNG_FRAME)
__CPROVER_ensures(__CPROVER_return_value >= 0.0 && __CPROVER_return_value <= DBL_MAX)
;

double Gamma(unsigned ia)
__CPROVER_requires(RNG_VALID())
__CPROVER_assigns(RNG_FRAME)
__CPROVER_ensures(__CPROVER_return_value >= 0.0 && __CPROVER_return_value <= DBL_MAX)
;

/* documented domain: skew > 0 (finite), limit >= 1 */
unsigned Zipf(double skew, unsigned limit)
__CPROVER_requires(RNG_VALID())
__CPROVER_requires(skew > 0.0 && skew <= DBL_MAX && limit >= 1)
__CPROVER_assigns(RNG_FRAME)
__CPROVER_ensures(1 <= __CPROVER_return_value && __CPROVER_return_value <= limit)
;

double Normal(void)
__CPROVER_requires(RNG_VALID())
__CPROVER_assigns(RNG_FRAME)
;

void random_lib_lp_init(lp_id_t lp_id, struct rng_ctx *rng_ctx)
__CPROVER_requires(__CPROVER_rw_ok(rng_ctx, sizeof(*rng_ctx)))
__CPROVER_assigns(__CPROVER_object_whole(rng_ctx))
;

#endif
