/* C15 / C10 - the binary heap macros of src/datatypes/heap.h (real text) on a heap of integers with an exact-size item
 * object: larger heaps than the message-level harnesses can afford (up to HN elements), every shape. */
#include "verif_harness.h"
#include <stdlib.h>
#include "datatypes/heap.h"

#ifndef HN
#define HN 11
#endif
#define HCAP 16

void vlogger(enum log_level l, char *f, unsigned n, const char *fmt, ...) { (void)l; (void)f; (void)n; (void)fmt; }
#ifndef VERIF_NATIVE
void *realloc(void *p, size_t n)
{
	(void)n;
	__CPROVER_assert(0, "C15.harness capacity suffices: the heap never reallocates in this bounded scenario");
	return p;
}
#endif

struct el {
	int key; /* priority: several elements may share a key (ties) */
	int id;  /* identity: distinct for distinct elements */
};
#define el_before(a, b) ((a).key < (b).key)
static heap_declare(struct el) hp;
static struct el store[HCAP];

static bool heap_ok(void)
{
	for(unsigned i = 1; i < HCAP; i++)
		if(i < heap_count(hp) && el_before(heap_items(hp)[i], heap_items(hp)[(i - 1) / 2]))
			return false;
	return true;
}
static unsigned occurrences(int id)
{
	unsigned c = 0;
	for(unsigned i = 0; i < HCAP; i++)
		if(i < heap_count(hp) && heap_items(hp)[i].id == id)
			c++;
	return c;
}

#define HEAP_SETUP()                                                                                                   \
	VIN(unsigned, n);                                                                                              \
	VIN_ARR(int, in_key, HCAP);                                                                                    \
	VIN(unsigned, g);                                                                                              \
	VASSUME(n <= HN && g < HCAP);                                                                                  \
	hp.items = store;                                                                                              \
	hp.capacity = HCAP;                                                                                            \
	hp.count = n;                                                                                                  \
	for(unsigned k_ = 0; k_ < HCAP; k_++) {                                                                        \
		store[k_].key = in_key[k_];                                                                            \
		store[k_].id = (int)k_;                                                                                \
	}                                                                                                              \
	VASSUME(heap_ok())

static void w_insert(struct el e) { heap_insert(hp, el_before, e); }
static struct el w_extract(void) { return heap_extract(hp, el_before); }

void h_heap_insert(void)
{
	HEAP_SETUP();
	VIN(int, key);
	struct el e = {.key = key, .id = 1000};
	w_insert(e);
	VASSERT(heap_count(hp) == n + 1, "C15.heap insert adds one element");
	VASSERT(heap_ok(), "C15.heap insert keeps the heap order for every shape");
	VASSERT(occurrences(1000) == 1 && (g >= n || occurrences((int)g) == 1), "C15.heap insert loses and duplicates nothing");
	VCANARY("h_heap_insert reachable");
	VCOVER(n == HN, "h_heap_insert covers the largest heap");
}

void h_heap_extract(void)
{
	HEAP_SETUP();
	VASSUME(n >= 1);
	struct el r = w_extract();
	VASSERT(heap_count(hp) == n - 1, "C15.heap extract removes one element");
	VASSERT(g >= n || !(in_key[g] < r.key), "C15.heap extract returns a minimum");
	VASSERT(heap_ok(), "C15.heap extract keeps the heap order for every shape (also a last node with only a left child)");
	VASSERT(g >= n || occurrences((int)g) == ((int)g == r.id ? 0U : 1U), "C15.heap extract removes exactly the returned element");
	VCANARY("h_heap_extract reachable");
	VCOVER(n == HN, "h_heap_extract covers the largest heap");
	VCOVER(n == 6, "h_heap_extract covers a heap whose last inner node has only a left child after the pop");
}
