#!/usr/bin/env python3
"""
/verif check driver: contract-based deductive verification of ROOT-Sim/core with CBMC code contracts.

  ./check <ID> [--tier quick|thorough] [--only <substr>] [--jobs N] [--keep]
  ./check <ID> --replay <replay.json>

Exit codes: 0 every obligation discharged; 1 a listed obligation is refuted (VIOLATION line);
            2 undecided (tool limit, build break, vacuity guard) - never reported as a violation.
"""
import argparse
import concurrent.futures as cf
import hashlib
import importlib.util
import json
import os
import re
import shutil
import subprocess
import sys
import tempfile
import time

VERIF = os.path.dirname(os.path.dirname(os.path.abspath(__file__)))
REPO = os.environ.get("VERIF_REPO", "/repo")
SRC = os.path.join(REPO, "src")
GUARD = "ROOT_SIM_CORE_VERIF"

SAFETY_FLAGS = ["--bounds-check", "--pointer-check", "--pointer-overflow-check", "--div-by-zero-check",
                "--signed-overflow-check", "--undefined-shift-check", "--pointer-primitive-check"]

# property classes that are semantic (contract) obligations; everything else is a built-in safety check
CONTRACT_CLASSES = {"postcondition", "precondition", "assigns", "assertion", "loop_invariant_base",
                    "loop_invariant_step", "loop_assigns", "loop_decreases", "loop_step_unwinding", "frees"}
UNDECIDED_CLASSES = {"unwind", "recursion", "no-body"}

TRUSTED_BASE = [
    "CBMC 6.11.0 C semantics, goto-instrument --dfcc contract instrumentation, SAT back end (MiniSat unless stated)",
    "x86-64 LP64 data model; -DNDEBUG as in the production RelWithDebInfo build (assert() is off on both sides)",
    "libc malloc/realloc/free as modelled by CBMC (fresh, disjoint objects, never fail; the runtime aborts on failure)",
    "stubs listed per harness (memcpy/memmove/memcmp ghost stubs, libm sign/finiteness contracts, MPI, stdio, timers, logger)",
    "C11 atomics: each operation atomic and sequentially consistent on its own word; threads are not modelled",
    "callers outside the functions under contract establish the stated preconditions",
]


def H(name, file, entry, enforce=None, rec=False, replace=(), src=(), defs=(), loops=False, unwindset=(),
      unwind=None, flags=(), kind="proof", bound="", tiers=("quick", "thorough"), timeout=600, mem_gb=8,
      canaries=1, solver=None, geometry=None, funcs=(), stubs=(), objbits=12, native=True, desc="",
      safety=True, expect_loops=0, nondet_static=False, extra_instr=(), float_checks=False, no_ptr_prim=False,
      fallback_unwind=None):
    return dict(locals())


def load_spec(pid):
    path = os.path.join(VERIF, "specs", pid + ".py")
    if not os.path.exists(path):
        print(f"no spec for {pid}", file=sys.stderr)
        sys.exit(2)
    sp = importlib.util.spec_from_file_location("spec_" + pid, path)
    mod = importlib.util.module_from_spec(sp)
    mod.H = H
    sp.loader.exec_module(mod)
    return mod


def run(cmd, timeout=None, mem_gb=None, cwd=None, env=None):
    pre = ""
    if mem_gb:
        pre = f"ulimit -v {int(mem_gb * 1024 * 1024)}; "
    full = pre + "exec " + " ".join(shquote(c) for c in cmd)
    t0 = time.time()
    try:
        p = subprocess.run(["bash", "-c", full], stdout=subprocess.PIPE, stderr=subprocess.PIPE, timeout=timeout,
                           cwd=cwd, env=env)
        return p.returncode, p.stdout.decode("utf-8", "replace"), p.stderr.decode("utf-8", "replace"), time.time() - t0
    except subprocess.TimeoutExpired as e:
        return -999, (e.stdout or b"").decode("utf-8", "replace"), "TIMEOUT", time.time() - t0


def shquote(s):
    if re.fullmatch(r"[A-Za-z0-9_./:=,+@%-]+", s):
        return s
    return "'" + s.replace("'", "'\"'\"'") + "'"


def geometry_include_dir(work, geometry):
    """Scratch copy of the CURRENT buddy.h with exactly the two geometry constants rewritten (must-fire)."""
    t, b = geometry
    d = os.path.join(work, f"geom_{t}_{b}")
    hdr_dir = os.path.join(d, "mm", "buddy")
    if os.path.exists(os.path.join(hdr_dir, "buddy.h")):
        return d
    os.makedirs(hdr_dir, exist_ok=True)
    text = open(os.path.join(SRC, "mm/buddy/buddy.h")).read()
    n1 = len(re.findall(r"^#define B_TOTAL_EXP 16U$", text, flags=re.M))
    n2 = len(re.findall(r"^#define B_BLOCK_EXP 6U$", text, flags=re.M))
    if n1 != 1 or n2 != 1:
        raise RuntimeError("must-fire geometry rewrite did not match exactly once "
                           f"(B_TOTAL_EXP matches={n1}, B_BLOCK_EXP matches={n2})")
    text = re.sub(r"^#define B_TOTAL_EXP 16U$", f"#define B_TOTAL_EXP {t}U", text, flags=re.M)
    text = re.sub(r"^#define B_BLOCK_EXP 6U$", f"#define B_BLOCK_EXP {b}U", text, flags=re.M)
    with open(os.path.join(hdr_dir, "buddy.h"), "w") as f:
        f.write(text)
    return d


def prop_class(name):
    # e.g. buddy_malloc.postcondition.1 / h_x.assertion.3 / buddy_malloc.pointer_dereference.7 / f.unwind.0
    parts = name.split(".")
    if len(parts) >= 3:
        return parts[-2]
    if len(parts) == 2:
        return parts[-1]
    return name


def obligation_key(r):
    """Stable, line-number-free name of a semantic obligation."""
    name = r["property"]
    cls = prop_class(name)
    desc = r.get("description", "")
    if cls == "assertion":
        return "assert:" + desc
    if cls == "assigns":
        return "frame:" + desc
    return name + ":" + desc if cls in ("loop_invariant_base", "loop_invariant_step", "loop_decreases",
                                         "loop_assigns", "loop_step_unwinding") else name


def build_and_run(h, work, tier, keep=False):
    """Compile one harness from the current working tree, instrument contracts, run cbmc, classify results."""
    res = dict(name=h["name"], kind=h["kind"], bound=h["bound"], enforce=h["enforce"], replace=list(h["replace"]),
               funcs=list(h["funcs"]), status="undecided", reason="", props=[], solver_s=0.0, wall_s=0.0,
               cmds=[], stubs=list(h["stubs"]), desc=h["desc"])
    t0 = time.time()
    hd = os.path.join(work, re.sub(r"[^A-Za-z0-9_.-]", "_", h["name"]))
    os.makedirs(hd, exist_ok=True)
    incs = []
    try:
        if h["geometry"]:
            incs += ["-I" + geometry_include_dir(work, h["geometry"])]
            res["geometry"] = list(h["geometry"])
    except RuntimeError as e:
        res["reason"] = str(e)
        return res
    incs += ["-I" + os.path.join(VERIF, "include", "shadow"), "-I" + os.path.join(VERIF, "include"), "-I" + VERIF, "-I" + SRC]
    defs = ["-DNDEBUG", "-D" + GUARD] + ["-D" + d for d in h["defs"]]
    srcs = [os.path.join(VERIF, h["file"])] + [os.path.join(SRC, s) for s in h["src"]] + \
           [os.path.join(VERIF, s) for s in h["stubs"]]
    a = os.path.join(hd, "a.gb")
    b = os.path.join(hd, "b.gb")
    cmd = ["goto-cc"] + defs + incs + ["--function", h["entry"]] + srcs + ["-o", a]
    res["cmds"].append(" ".join(cmd))
    rc, out, err, _ = run(cmd, timeout=300)
    if rc != 0:
        res["reason"] = "harness does not compile against the current tree (goto-cc): " + (err + out)[-1500:]
        return res
    cur = a
    if h["nondet_static"]:
        c2 = os.path.join(hd, "a2.gb")
        rc, out, err, _ = run(["goto-instrument", "--nondet-static", cur, c2], timeout=300)
        if rc != 0:
            res["reason"] = "goto-instrument --nondet-static failed: " + (err + out)[-800:]
            return res
        cur = c2
    need_dfcc = h["enforce"] or h["replace"] or h["loops"]
    if need_dfcc:
        cmd = ["goto-instrument", "--dfcc", h["entry"]]
        if h["enforce"]:
            cmd += ["--enforce-contract-rec" if h["rec"] else "--enforce-contract", h["enforce"]]
        for r in h["replace"]:
            cmd += ["--replace-call-with-contract", r]
        if h["loops"]:
            cmd += ["--apply-loop-contracts"]
        cmd += list(h["extra_instr"])
        cmd += [cur, b]
        res["cmds"].append(" ".join(cmd))
        rc, out, err, _ = run(cmd, timeout=600, mem_gb=h["mem_gb"])
        if rc != 0:
            res["reason"] = "contract instrumentation failed (goto-instrument --dfcc): " + (err + out)[-1500:]
            return res
        cur = b
    cmd = ["cbmc", cur, "--json-ui", "--verbosity", "8", "--drop-unused-functions", "--object-bits", str(h["objbits"])]
    if h["safety"]:
        fl = list(SAFETY_FLAGS)
        if h["no_ptr_prim"]:
            fl.remove("--pointer-primitive-check")
        cmd += fl
    if h["float_checks"]:
        cmd += ["--float-overflow-check", "--nan-check"]
    for u in h["unwindset"]:
        cmd += ["--unwindset", u]
        fn, rest = u.split(".", 1)
        if h["enforce"] and fn == h["enforce"]:
            # dfcc renames the function under contract; its loops are numbered under the wrapped name
            cmd += ["--unwindset", f"{fn}_wrapped_for_contract_checking.{rest}"]
    if h["unwind"] is not None:
        cmd += ["--unwind", str(h["unwind"])]
    elif h["unwindset"]:
        # safety net for loops that are not in the unwindset (e.g. a loop introduced by a change to /repo): bounded with
        # an unwinding assertion instead of being unwound forever; loops listed in the unwindset keep their own bounds.
        # Default: the largest listed bound + 2.
        fb = h.get("fallback_unwind")
        if not fb:
            try:
                fb = max(int(u.rsplit(":", 1)[1]) for u in h["unwindset"]) + 2
            except Exception:
                fb = 64
        cmd += ["--unwind", str(fb)]
    if h["unwindset"] or h["unwind"] is not None:
        cmd += ["--unwinding-assertions"]
    if h["solver"] == "kissat":
        cmd += ["--external-sat-solver", "kissat"]
    elif h["solver"] in ("cvc5", "z3"):
        cmd += ["--" + h["solver"]]
    cmd += list(h["flags"])
    res["cmds"].append(" ".join(cmd))
    res["cbmc_cmd"] = cmd
    res["binary"] = cur
    rc, out, err, wall = run(cmd, timeout=h["timeout"], mem_gb=h["mem_gb"])
    res["wall_s"] = round(time.time() - t0, 2)
    if rc == -999:
        res["reason"] = f"cbmc timeout after {h['timeout']} s"
        return res
    try:
        data = json.loads(out)
    except Exception:
        res["reason"] = f"cbmc gave no parsable output (rc={rc}; out of memory or crash): " + (err + out[-600:])[-900:]
        return res
    props = None
    msgs = []
    errs = []
    for e in data:
        if "result" in e:
            props = e["result"]
        if "messageText" in e:
            msgs.append(e["messageText"])
            if e.get("messageType") == "ERROR":
                errs.append(e["messageText"])
    res["tool_errors"] = errs[:5]
    alltxt = "\n".join(msgs)
    for m in re.finditer(r"Runtime decision procedure: ([0-9.e+-]+)s", alltxt):
        res["solver_s"] += float(m.group(1))
    res["solver_s"] = round(res["solver_s"], 3)
    res["warnings"] = sorted(set(re.findall(r"(?:ignoring [^\n]*|no body for (?:function|callee) [^\n]*)", alltxt)))
    if props is None:
        res["reason"] = f"cbmc produced no property results (rc={rc}): " + alltxt[-900:]
        return res
    res["props"] = [dict(property=p["property"], status=p["status"], description=p.get("description", ""),
                         cls=prop_class(p["property"]),
                         loc=(p.get("sourceLocation", {}).get("file", "") + ":" +
                              str(p.get("sourceLocation", {}).get("line", ""))))
                    for p in props]
    if not keep:
        pass
    classify(h, res)
    return res


def classify(h, res):
    props = res["props"]
    canaries = [p for p in props if p["description"].startswith("CANARY")]
    real = [p for p in props if not p["description"].startswith("CANARY")]
    res["n_props"] = len(real)
    res["n_contract"] = sum(1 for p in real if p["cls"] in CONTRACT_CLASSES)
    res["n_safety"] = len(real) - res["n_contract"]
    res["canaries"] = [dict(description=p["description"], status=p["status"]) for p in canaries]
    failed = [p for p in real if p["status"] == "FAILURE" and p["cls"] not in UNDECIDED_CLASSES]
    unwind_failed = [p for p in real if p["status"] == "FAILURE" and p["cls"] in UNDECIDED_CLASSES]
    other = [p for p in real if p["status"] not in ("SUCCESS", "FAILURE")]
    res["failed"] = failed
    if failed:
        res["status"] = "refuted"
        res["reason"] = "; ".join(f"{p['property']} [{p['description']}]" for p in failed[:6])
        return
    if unwind_failed:
        res["status"] = "undecided"
        res["reason"] = "unwinding assertion failed (bound too small for this tree): " + unwind_failed[0]["property"]
        return
    if other:
        res["status"] = "undecided"
        res["reason"] = ("cbmc returned status " + other[0]["status"] + " for " + other[0]["property"] + " ("
                         + "; ".join(res.get("tool_errors", []))[:300] + ")")
        return
    # vacuity guards
    if len(canaries) < h["canaries"]:
        res["status"] = "undecided"
        res["reason"] = f"vacuity guard: expected >= {h['canaries']} canary assertions, found {len(canaries)}"
        return
    ok_can = [c for c in canaries if c["status"] == "FAILURE"]
    if len(ok_can) != len(canaries):
        bad = [c["description"] for c in canaries if c["status"] != "FAILURE"]
        res["status"] = "undecided"
        res["reason"] = "vacuity guard: canary not reachable (precondition unsatisfiable?): " + "; ".join(bad)
        return
    if res["n_contract"] == 0:
        res["status"] = "undecided"
        res["reason"] = "vacuity guard: no contract obligation generated"
        return
    if h["loops"]:
        nb = len([p for p in real if p["cls"] == "loop_invariant_base"])
        ns = len([p for p in real if p["cls"] == "loop_invariant_step"])
        if nb < h["expect_loops"] or ns < h["expect_loops"]:
            res["status"] = "undecided"
            res["reason"] = (f"vacuity guard: expected loop-invariant obligations for {h['expect_loops']} loop(s), "
                             f"found base={nb} step={ns} (loop contract dropped or hook missing)")
            return
    bad_warn = [w for w in res.get("warnings", []) if "ignoring" in w and "forall" in w or "ignoring exists" in w]
    if bad_warn:
        res["status"] = "undecided"
        res["reason"] = "quantifier ignored by back end: " + bad_warn[0]
        return
    res["status"] = "discharged"


# --------------------------------------------------------------------------------------------------------------------
# counterexample extraction and native replay

def value_bytes(v):
    """In-memory image (little endian) of a CBMC json trace value: scalars by their bit pattern, arrays by index
    order, structs by member order (CBMC lists padding members explicitly)."""
    if v is None:
        return b""
    if "elements" in v:
        return b"".join(value_bytes(e.get("value")) for e in sorted(v["elements"], key=lambda e: int(e.get("index", 0))))
    if "members" in v:
        return b"".join(value_bytes(m.get("value")) for m in v["members"])
    if "binary" in v:
        bits = v["binary"]
        if len(bits) % 8:
            bits = bits.rjust((len(bits) + 7) // 8 * 8, "0")
        return int(bits, 2).to_bytes(len(bits) // 8, "little") if bits else b""
    if "data" in v:
        try:
            w = int(v.get("width", 64))
            return (int(v["data"]) & ((1 << w) - 1)).to_bytes(w // 8, "little")
        except Exception:
            return b""
    return b""


def flatten_value(v, prefix, out):
    """name -> hex bytes; a VIN_ARR value (one-member struct 'v' holding the array) becomes name[i] entries."""
    if v is None:
        return
    if "members" in v and len(v["members"]) == 1 and v["members"][0].get("name") == "v" \
            and "elements" in (v["members"][0].get("value") or {}):
        for e in v["members"][0]["value"]["elements"]:
            out[f"{prefix}[{int(e.get('index', 0))}]"] = value_bytes(e.get("value")).hex()
        return
    out[prefix] = value_bytes(v).hex()


def extract_inputs(trace, names):
    """First assignment to each VIN / VIN_ARR variable of the harness = the counterexample input."""
    ins = {}
    human = {}
    seen = set()
    for st in trace:
        if st.get("stepType") != "assignment" or st.get("hidden"):
            continue
        lhs = st.get("lhs", "")
        if not lhs.startswith("return_value_nondet_in_"):
            continue
        base = re.sub(r"__L\d+$", "", lhs[len("return_value_nondet_in_"):])
        if base not in names or base in seen:
            continue
        seen.add(base)
        flatten_value(st.get("value"), base, ins)
        human[base] = st.get("value", {}).get("data", "<aggregate>")
    return ins, human


def vin_names_of(harness_file):
    txt = open(harness_file).read()
    return set(re.findall(r"\bVIN(?:_ARR)?\(\s*[^,]+,\s*([A-Za-z_][A-Za-z0-9_]*)", txt))


def get_counterexample(h, res, prop, work):
    base = list(res["cbmc_cmd"])
    if "--verbosity" in base:
        i = base.index("--verbosity")
        del base[i:i + 2]
    cmd = [c for c in base if c != "--json-ui"] + ["--property", prop["property"], "--trace", "--json-ui"]
    rc, out, err, wall = run(cmd, timeout=h["timeout"], mem_gb=h["mem_gb"])
    try:
        data = json.loads(out)
    except Exception:
        return None, "no parsable trace output"
    trace = None
    for e in data:
        if "result" in e:
            for r in e["result"]:
                if r.get("property") == prop["property"] and "trace" in r:
                    trace = r["trace"]
    if trace is None:
        return None, "cbmc gave no trace"
    names = vin_names_of(os.path.join(VERIF, h["file"]))
    ins, human = extract_inputs(trace, names)
    # a short human-readable tail of the trace: last assignments inside /repo code
    tail = []
    for st in trace:
        if st.get("stepType") == "assignment" and not st.get("hidden") and \
                st.get("sourceLocation", {}).get("file", "").startswith(SRC):
            tail.append(f"{st['sourceLocation'].get('file','')[len(REPO)+1:]}:{st['sourceLocation'].get('line','')} "
                        f"{st.get('lhs')} = {st.get('value', {}).get('data', '?')}")
    return dict(inputs=ins, human=human, code_trace_tail=tail[-40:]), ""


def native_replay(h, work, inputs_path, log_path):
    hd = tempfile.mkdtemp(prefix="native_", dir=work)
    exe = os.path.join(hd, "replay.bin")
    incs = []
    if h["geometry"]:
        incs += ["-I" + geometry_include_dir(work, h["geometry"])]
    incs += ["-I" + os.path.join(VERIF, "include"), "-I" + VERIF, "-I" + SRC]
    defs = ["-DNDEBUG", "-DVERIF_NATIVE", "-DHARNESS=" + h["entry"]] + ["-D" + d for d in h["defs"]]
    srcs = [os.path.join(VERIF, h["file"])] + [os.path.join(SRC, s) for s in h["src"]] + \
           [os.path.join(VERIF, "include/verif_native.c")]
    cmd = ["gcc", "-g", "-O0", "-w", "-fsanitize=address,undefined", "-fno-sanitize-recover=undefined",
           "-fno-omit-frame-pointer"] + defs + incs + srcs + ["-lm", "-lpthread", "-o", exe]
    rc, out, err, _ = run(cmd, timeout=300)
    if rc != 0:
        open(log_path, "w").write("NATIVE BUILD FAILED\n" + " ".join(cmd) + "\n" + err + out)
        return "build-failed", " ".join(cmd)
    env = dict(os.environ, ASAN_OPTIONS="detect_leaks=0:abort_on_error=0", UBSAN_OPTIONS="print_stacktrace=1")
    rc, out, err, _ = run([exe, inputs_path], timeout=120, env=env)
    open(log_path, "w").write(" ".join(cmd) + "\n" + f"rc={rc}\n--- stdout\n{out}\n--- stderr\n{err}\n")
    shutil.rmtree(hd, ignore_errors=True)
    if "REPLAY-ASSUME-UNMET" in out:
        return "assumption-unmet", " ".join(cmd)
    if "REPLAY-FAIL" in out or "runtime error" in err or "AddressSanitizer" in err:
        return "reproduced", " ".join(cmd)
    if rc != 0:
        return f"native-run-error(rc={rc})", " ".join(cmd)
    return "not-reproduced", " ".join(cmd)


def report_violation(pid, h, res, work):
    """Write the replay file for the first refuted obligation of this harness; return the VIOLATION line."""
    prop = res["failed"][0]
    rdir = os.path.join(VERIF, "replay", pid)
    os.makedirs(rdir, exist_ok=True)
    tag = re.sub(r"[^A-Za-z0-9_.-]", "_", h["name"] + "__" + prop["property"])
    rpath = os.path.join(rdir, tag + ".json")
    ipath = os.path.join(rdir, tag + ".inputs")
    lpath = os.path.join(rdir, tag + ".native.log")
    cex, why = get_counterexample(h, res, prop, work)
    verdict = "no-counterexample"
    native_cmd = ""
    if cex is not None:
        with open(ipath, "w") as f:
            for k, v in sorted(cex["inputs"].items()):
                f.write(f"{k} {v}\n")
        if h["native"]:
            try:
                verdict, native_cmd = native_replay(h, work, ipath, lpath)
            except Exception as e:  # never let replay problems hide the violation
                verdict = "replay-error: " + str(e)
        else:
            verdict = "no-native-harness"
    doc = dict(property_id=pid, harness=h["name"], obligation=obligation_key(prop), cbmc_property=prop["property"],
               description=prop["description"], source_location=prop["loc"], kind=h["kind"], bound=h["bound"],
               function_under_contract=h["enforce"], all_refuted=[obligation_key(p) + " @" + p["loc"] for p in res["failed"]],
               verifier_output=dict(status="FAILURE", commands=res["cmds"]),
               counterexample=cex if cex is not None else dict(note=why),
               inputs_file=ipath if cex is not None else None,
               native_replay=dict(verdict=verdict, build_and_run=native_cmd, log=lpath if os.path.exists(lpath) else None),
               replay_cmd=f"./check {pid} --replay {rpath}")
    with open(rpath, "w") as f:
        json.dump(doc, f, indent=1)
    suffix = "" if verdict == "reproduced" else " no-failing-input-found"
    return f"VIOLATION property={pid} replay={rpath}{suffix}", doc


# --------------------------------------------------------------------------------------------------------------------

def load_known(pid):
    known, fixed = [], []
    p = os.path.join(VERIF, "known_findings.txt")
    if os.path.exists(p):
        for line in open(p):
            line = line.strip()
            if not line or line.startswith("#"):
                continue
            if line.startswith("known:") and f"property={pid} " in line:
                m = re.search(r"obligation=(\S+)", line)
                known.append(dict(line=line, obligation=m.group(1) if m else None))
            elif line.startswith("fixed:") and f"property={pid} " in line:
                fixed.append(line)
    return known, fixed


def scan_assumptions(files):
    """Mechanical scan for every assume / stub marker in the harness + contract text used by this check."""
    found = []
    for f in sorted(set(files)):
        if not os.path.exists(f):
            continue
        for i, line in enumerate(open(f, errors="replace"), 1):
            if re.search(r"__CPROVER_assume|VASSUME\(|VERIF_STUB|ASSUMED:", line):
                found.append(f"{os.path.relpath(f, VERIF)}:{i}: {line.strip()[:160]}")
    return found


def included_files(h):
    out = [os.path.join(VERIF, h["file"])] + [os.path.join(VERIF, s) for s in h["stubs"]]
    txt = open(os.path.join(VERIF, h["file"])).read()
    for m in re.finditer(r'#include\s+"((?:contracts|stubs|include)/[^"]+)"', txt):
        out.append(os.path.join(VERIF, m.group(1)))
    return out


def main():
    ap = argparse.ArgumentParser()
    ap.add_argument("pid")
    ap.add_argument("--tier", default=os.environ.get("VERIF_TIER", "quick"), choices=["quick", "thorough"])
    ap.add_argument("--only", default=None)
    ap.add_argument("--jobs", type=int, default=int(os.environ.get("VERIF_JOBS", "16")))
    ap.add_argument("--keep", action="store_true")
    ap.add_argument("--replay", default=None)
    ap.add_argument("--no-evidence", action="store_true")
    args = ap.parse_args()
    pid = args.pid
    seed = int(os.environ.get("VERIF_SEED", "0") or 0)
    spec = load_spec(pid)

    if args.replay:
        return do_replay(pid, spec, args.replay)

    t0 = time.time()
    work = tempfile.mkdtemp(prefix=f"rsverif.{pid}.")
    harnesses = [h for h in spec.HARNESSES if args.tier in h["tiers"]]
    if args.only:
        harnesses = [h for h in harnesses if args.only in h["name"]]
    if not harnesses:
        print(f"UNDECIDED property={pid} no harness selected (tier={args.tier}, only={args.only}): nothing was checked")
        shutil.rmtree(work, ignore_errors=True)
        return 2
    results = []
    try:
        # heaviest first so that the tail of the schedule is short
        order = sorted(harnesses, key=lambda h: -h["timeout"])
        with cf.ThreadPoolExecutor(max_workers=max(1, args.jobs)) as ex:
            futs = {ex.submit(build_and_run, h, work, args.tier, args.keep): h for h in order}
            for fu in cf.as_completed(futs):
                h = futs[fu]
                try:
                    r = fu.result()
                except Exception as e:
                    r = dict(name=h["name"], kind=h["kind"], status="undecided", reason="driver error: " + repr(e),
                             props=[], solver_s=0, wall_s=0, cmds=[], funcs=list(h["funcs"]), bound=h["bound"],
                             enforce=h["enforce"], replace=list(h["replace"]), stubs=list(h["stubs"]), desc=h["desc"])
                results.append((h, r))
                print(f"  [{r['status']:>10}] {r['name']}  ({r.get('n_contract', 0)} contract + {r.get('n_safety', 0)} safety "
                      f"obligations, {r['wall_s']} s){'  -- ' + r['reason'][:300] if r['status'] != 'discharged' else ''}",
                      flush=True)
        results.sort(key=lambda hr: [x["name"] for x in harnesses].index(hr[0]["name"]))

        known, fixed = load_known(pid)
        violations = []
        known_hit = []
        for h, r in results:
            if r["status"] != "refuted":
                continue
            unlisted = []
            for p in r["failed"]:
                ob = h["name"] + "::" + obligation_key(p)
                k = [k for k in known if k["obligation"] and k["obligation"] == ob]
                if k:
                    known_hit.append(k[0]["line"])
                else:
                    unlisted.append(p)
            if unlisted:
                r["failed"] = unlisted
                line, doc = report_violation(pid, h, r, work)
                violations.append(line)
                r["replay"] = doc["replay_cmd"]
                r["native_verdict"] = doc["native_replay"]["verdict"]
            else:
                r["status"] = "known-finding"
        # committed obligation list: every listed semantic obligation must still be generated
        missing = check_obligation_list(pid, args, results)
        undecided = [(h, r) for h, r in results if r["status"] == "undecided"]

        if not args.no_evidence and not args.only:
            write_evidence(pid, spec, args.tier, seed, results, violations, known_hit, missing, time.time() - t0)

        for kl in sorted(set(known_hit)):
            print("KNOWN-FINDING: " + kl[len("known:"):].strip())
        for v in violations:
            print(v)
        if violations:
            return 1
        if undecided or missing:
            for h, r in undecided:
                print(f"UNDECIDED {pid} {r['name']}: {r['reason'][:400]}")
            for m in missing:
                print(f"UNDECIDED {pid}: listed obligation no longer generated: {m}")
            return 2
        n_ob = sum(r.get("n_props", 0) for _, r in results)
        print(f"OK {pid} tier={args.tier}: {len(results)} harnesses, {n_ob} obligations discharged, "
              f"{round(time.time() - t0, 1)} s")
        return 0
    finally:
        if not args.keep:
            shutil.rmtree(work, ignore_errors=True)
        else:
            print("work dir kept:", work)


def check_obligation_list(pid, args, results):
    """obligations/<ID>.list holds the stable names of the semantic obligations of the quick tier."""
    path = os.path.join(VERIF, "obligations", pid + ".list")
    cur = set()
    for h, r in results:
        for p in r.get("props", []):
            # only obligations whose names do not depend on the text of /repo: harness assertions named after the
            # property, contract postconditions, preconditions of replaced callees
            if p["cls"] == "assertion" and p["description"].startswith(pid + "."):
                cur.add(h["name"] + "::" + obligation_key(p))
            elif p["cls"] in ("postcondition", "precondition"):
                cur.add(h["name"] + "::" + obligation_key(p))
    if os.environ.get("VERIF_UPDATE_LIST") == "1" and not args.only:
        keep = []
        if os.path.exists(path):
            # keep entries of harnesses not run in this tier
            ran = {h["name"] for h, _ in results}
            keep = [l.strip() for l in open(path) if l.strip() and l.split("::")[0] not in ran]
        with open(path, "w") as f:
            for l in sorted(set(keep) | cur):
                f.write(l + "\n")
        return []
    if not os.path.exists(path):
        return []
    ran = {h["name"] for h, r in results if r["status"] in ("discharged", "refuted", "known-finding")}
    missing = []
    for l in open(path):
        l = l.strip()
        if l and l.split("::")[0] in ran and l not in cur:
            missing.append(l)
    return missing


def write_evidence(pid, spec, tier, seed, results, violations, known_hit, missing, wall):
    level = spec.LEVEL
    proved = [(h, r) for h, r in results if r["status"] == "discharged" and h["kind"] == "proof"]
    bounded = [(h, r) for h, r in results if r["status"] == "discharged" and h["kind"] == "bounded"]
    n_proof_total = sum(r.get("n_props", 0) for h, r in results if h["kind"] == "proof")
    n_proof_ok = sum(r.get("n_props", 0) for h, r in proved)
    n_b_total = sum(r.get("n_props", 0) for h, r in results if h["kind"] == "bounded")
    n_b_ok = sum(r.get("n_props", 0) for h, r in bounded)
    funcs = sorted({f for h, r in results for f in r.get("funcs", [])})
    assumed = sorted({f for h, r in results for f in r.get("replace", [])})
    files = []
    for h, _ in results:
        files += included_files(h)
    samples = []
    for h, r in results:
        sem = [p for p in r.get("props", []) if p["cls"] in CONTRACT_CLASSES and not p["description"].startswith("CANARY")]
        for p in sem[:3]:
            samples.append(dict(harness=h["name"], obligation=obligation_key(p), status=p["status"], location=p["loc"]))
    per_h = []
    for h, r in results:
        per_h.append(dict(harness=h["name"], kind=h["kind"], bound=h["bound"], status=r["status"], reason=r.get("reason", ""),
                          function_under_contract=h["enforce"], callee_contracts_used=list(h["replace"]),
                          loop_contracts=h["loops"], obligations=r.get("n_props", 0),
                          contract_obligations=r.get("n_contract", 0), safety_obligations=r.get("n_safety", 0),
                          canaries=r.get("canaries", []), solver_s=r.get("solver_s", 0), wall_s=r.get("wall_s", 0),
                          back_end=(h["solver"] or "cbmc built-in SAT (MiniSat 2.2.1)"),
                          geometry=r.get("geometry"), what=h["desc"], commands=r.get("cmds", []),
                          warnings=r.get("warnings", [])))
    all_ok = (not violations and not missing and all(r["status"] in ("discharged", "known-finding") for _, r in results))
    cov = dict(
        obligations=n_proof_total if n_proof_total else n_b_total,
        discharged=n_proof_ok if n_proof_total else n_b_ok,
        proof_obligations=n_proof_total, proof_discharged=n_proof_ok,
        bounded_obligations=n_b_total, bounded_discharged=n_b_ok,
        harnesses=len(results),
        checker_cmd="goto-cc -DNDEBUG -DROOT_SIM_CORE_VERIF -I/repo/src --function <h> <harness.c including the real .c> ; "
                    "goto-instrument --dfcc <h> --enforce-contract <f> [--replace-call-with-contract <g>] "
                    "[--apply-loop-contracts] ; cbmc --json-ui " + " ".join(SAFETY_FLAGS),
        trusted_base=TRUSTED_BASE + list(getattr(spec, "TRUSTED", [])),
        functions_under_contract=funcs,
        callee_contracts_assumed_at_call_sites=assumed,
        solver_time_s=round(sum(r.get("solver_s", 0) for _, r in results), 2),
        samples=samples[:40],
        per_harness=per_h,
        explanation=spec.EXPLANATION,
        undecided=[dict(harness=r["name"], reason=r["reason"][:500]) for _, r in results if r["status"] == "undecided"],
        known_findings_hit=sorted(set(known_hit)),
        listed_obligations_missing=missing,
        all_discharged=all_ok,
        repo_head=git_head(),
    )
    ev = dict(property_id=pid, tier=tier, seed=seed, level=level, coverage=cov,
              assumptions=list(getattr(spec, "ASSUMPTIONS", [])) + scan_assumptions(files),
              wall_s=round(wall, 2), violations=len(violations))
    os.makedirs(os.path.join(VERIF, "evidence"), exist_ok=True)
    with open(os.path.join(VERIF, "evidence", pid + ".json"), "w") as f:
        json.dump(ev, f, indent=1)


def git_head():
    try:
        return subprocess.run(["git", "-C", REPO, "rev-parse", "HEAD"], stdout=subprocess.PIPE).stdout.decode().strip()
    except Exception:
        return ""


def do_replay(pid, spec, path):
    doc = json.load(open(path))
    hs = [h for h in spec.HARNESSES if h["name"] == doc["harness"]]
    if not hs:
        print("harness not found:", doc["harness"])
        return 2
    h = hs[0]
    work = tempfile.mkdtemp(prefix=f"rsverif.replay.{pid}.")
    try:
        if not doc.get("inputs_file") or not os.path.exists(doc["inputs_file"]):
            print("replay file carries no inputs (verifier gave no counterexample); obligation:", doc["obligation"])
            return 2
        log = os.path.join(work, "native.log")
        verdict, cmd = native_replay(h, work, doc["inputs_file"], log)
        print(open(log).read()[-4000:])
        print("native replay verdict:", verdict)
        return 1 if verdict == "reproduced" else 0
    finally:
        shutil.rmtree(work, ignore_errors=True)


if __name__ == "__main__":
    sys.exit(main())
