/* C14 - every LP has exactly one owner and routing agrees with ownership: src/lp/lp.c (real text), the
 * partition_start() macro with lid_to_nid / lid_to_rid. Bounded configuration box (stated in the evidence):
 * symbolic 64-bit multiply/divide defeats every installed back end beyond small widths. */
#include "verif_harness.h"
#include <stdlib.h>
#include "lp/lp.c"

#ifndef BOX_LPS
#define BOX_LPS 48
#endif
#ifndef BOX_NODES
#define BOX_NODES 6
#endif
#ifndef BOX_THREADS
#define BOX_THREADS 6
#endif

struct simulation_configuration global_config;
__thread rid_t rid;
nid_t nid, n_nodes;

#ifndef VERIF_NATIVE
/* VERIF_STUB malloc: the LP table is carved from one fixed-size object (objects of symbolic size make the SAT
 * encoding explode); the request must fit, which is a checked obligation */
static struct lp_ctx lp_pool[BOX_LPS];
void *malloc(size_t n)
{
	__CPROVER_assert(n <= sizeof(lp_pool), "C14.harness LP table fits the box");
	return lp_pool;
}
void free(void *p) { (void)p; }
#endif

/* VERIF_STUB per-LP initialisers / finalisers: log the LP (by address, no index arithmetic) each was called for */
static const struct lp_ctx *init_log[BOX_LPS + 1], *rng_log[BOX_LPS + 1], *fini_log[BOX_LPS + 1];
static lp_id_t rng_id_log[BOX_LPS + 1];
static unsigned n_init, n_rng, n_fini, order_bad;
static struct rng_ctx rngs[BOX_LPS + 1];
void model_allocator_lp_init(struct mm_state *s)
{
	if(n_init < BOX_LPS)
		init_log[n_init] = (const struct lp_ctx *)((char *)s - offsetof(struct lp_ctx, mm_state));
	n_init++;
}
void model_allocator_lp_fini(struct mm_state *s) { (void)s; }
void *rs_malloc(size_t n)
{
	(void)n;
	/* must be called for the LP whose allocator was initialised last, before its generator is seeded */
	if(n_init == 0 || n_init > BOX_LPS || init_log[n_init - 1] != current_lp || n_rng != n_init - 1)
		order_bad++;
	return &rngs[n_rng <= BOX_LPS ? n_rng : 0];
}
void random_lib_lp_init(lp_id_t id, struct rng_ctx *c)
{
	if(n_rng < BOX_LPS) {
		rng_log[n_rng] = current_lp;
		rng_id_log[n_rng] = id;
		if(c != &rngs[n_rng] || current_lp->rng_ctx != c)
			order_bad++;
	}
	n_rng++;
}
void auto_ckpt_lp_init(struct auto_ckpt *a) { (void)a; }
void process_lp_init(struct lp_ctx *lp) { if(n_rng == 0 || n_rng > BOX_LPS || rng_log[n_rng - 1] != lp) order_bad++; }
void process_lp_fini(struct lp_ctx *lp) { if(n_fini < BOX_LPS) fini_log[n_fini] = lp; n_fini++; }
void termination_lp_init(struct lp_ctx *lp) { (void)lp; }
void vlogger(enum log_level l, char *f, unsigned n, const char *fmt, ...) { (void)l; (void)f; (void)n; (void)fmt; }
static unsigned occurrences(const struct lp_ctx **log, unsigned n, const struct lp_ctx *p)
{
	unsigned c = 0;
	for(unsigned k = 0; k < BOX_LPS; k++)
		if(k < n && log[k] == p)
			c++;
	return c;
}

#define CFG_SETUP()                                                                                                    \
	VIN(lp_id_t, in_lps);                                                                                          \
	VIN(nid_t, in_nodes);                                                                                          \
	VIN(nid_t, in_nid);                                                                                            \
	VIN(unsigned, in_threads);                                                                                     \
	VIN(lp_id_t, g);                                                                                               \
	VASSUME(in_lps >= 1 && in_lps <= BOX_LPS && in_nodes >= 1 && in_nodes <= BOX_NODES && in_nid >= 0 && in_nid < in_nodes); \
	VASSUME(in_threads >= 1 && in_threads <= BOX_THREADS && g < in_lps);                                           \
	global_config.lps = in_lps;                                                                                    \
	global_config.n_threads = in_threads;                                                                          \
	n_nodes = in_nodes;                                                                                            \
	nid = in_nid;                                                                                                  \
	n_init = n_rng = n_fini = 0;                                                                                   \
	order_bad = 0

/* rank level: the LPs a rank hosts are exactly those routed to it, a contiguous range inside the id space */
void h_global_init(void)
{
	CFG_SETUP();
	lp_global_init();
	VASSERT(lid_node_first <= in_lps && n_lps_node <= in_lps - lid_node_first, "C14.node range inside the identifier space");
	VASSERT((lid_to_nid(g) == nid) == (g >= lid_node_first && g - lid_node_first < n_lps_node),
	    "C14.node an LP is hosted by this rank exactly when events for it are routed to this rank");
	VASSERT(lid_to_nid(g) >= 0 && lid_to_nid(g) < n_nodes, "C14.node every LP is routed to an existing rank");
	VASSERT(global_config.n_threads <= in_threads && (n_lps_node == 0 || global_config.n_threads >= 1) &&
		    global_config.n_threads <= (n_lps_node > in_threads ? in_threads : n_lps_node),
	    "C14.node thread count reduced to the number of hosted LPs when there are fewer LPs than threads");
	VCANARY("h_global_init reachable");
	VCOVER(n_lps_node > 0 && n_lps_node < in_threads, "h_global_init covers fewer LPs than threads");
}

/* thread level, after lp_global_init: the LPs a thread initialises are exactly those routed to it */
void h_lp_init(void)
{
	CFG_SETUP();
	VIN(rid_t, in_rid);
	lp_global_init();
	VASSUME(n_lps_node >= 1 && in_rid < global_config.n_threads);
	rid = in_rid;
	lp_init();
	VASSERT(lid_thread_first >= lid_node_first && lid_thread_first <= lid_thread_end && lid_thread_end <= lid_node_first + n_lps_node,
	    "C14.thread range is contiguous and inside the rank's range");
	VASSERT(lid_thread_first < lid_thread_end, "C14.thread no thread of a rank is left without LPs (the rank hosts at least as many LPs as threads)");
	if(g >= lid_node_first && g - lid_node_first < n_lps_node) {
		bool mine = g >= lid_thread_first && g < lid_thread_end;
		VASSERT((lid_to_rid(g) == rid) == mine, "C14.thread an LP is owned by this thread exactly when events for it are routed to this thread's queue");
		VASSERT(lid_to_rid(g) < global_config.n_threads, "C14.thread every hosted LP is routed to an existing thread");
		VASSERT(occurrences(init_log, n_init, &lps[g]) == (mine ? 1U : 0U) && occurrences(rng_log, n_rng, &lps[g]) == (mine ? 1U : 0U),
		    "C14.thread each owned LP is initialised exactly once, no other LP is touched");
		for(unsigned k = 0; k < BOX_LPS; k++)
			if(k < n_rng && rng_log[k] == &lps[g])
				VASSERT(rng_id_log[k] == g, "C09.lp_init the random stream of an LP is seeded with its global identifier");
	}
	VASSERT(n_init == lid_thread_end - lid_thread_first && n_rng == n_init, "C14.thread exactly the LPs of the thread's range are initialised");
	VASSERT(order_bad == 0, "C05.lp_init the generator context comes from the LP's own rollbackable allocator, after the allocator is initialised");
	VCANARY("h_lp_init reachable");
}

void h_lp_fini(void)
{
	CFG_SETUP();
	VIN(rid_t, in_rid);
	lp_global_init();
	VASSUME(n_lps_node >= 1 && in_rid < global_config.n_threads);
	rid = in_rid;
	lp_init();
	lp_fini();
	if(g >= lid_node_first && g - lid_node_first < n_lps_node) {
		bool mine = g >= lid_thread_first && g < lid_thread_end;
		VASSERT(occurrences(fini_log, n_fini, &lps[g]) == (mine ? 1U : 0U), "C14.thread each owned LP is finalised exactly once by its owner");
	}
	VCANARY("h_lp_fini reachable");
}
