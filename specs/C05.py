# C05 - rollback restores the exact LP state.
LEVEL = "proof"
FC = "harness/c05_ckpt.c"

def ck(name, entry, enforce, desc, geoms, canaries=1, extra_uw=()):
    hs = []
    for (t, b), tiers, to in geoms:
        nodes = 1 << (t - b + 1)
        tot = 1 << t
        # buddy_tree_visit: one while(1) loop visiting at most every node once on the way down and once on the way up
        walk = nodes + (nodes // 2) + 3   # every inner node is entered at most twice, every leaf once
        fn = enforce or entry
        climb = t - b + 3
        uw = [f"checkpoint_full_take.0:{climb}", f"checkpoint_full_take.1:{walk}", f"checkpoint_full_restore.0:{climb}", f"checkpoint_full_restore.1:{walk}",
              f"b_wf.0:{nodes + 1}", f"b_wf_lon.0:{nodes + 1}", f"b_alloc_bytes.0:{nodes + 1}", f"b_ckpt_pos.0:{nodes + 1}"] + \
             [f"{entry}.{k}:{max(nodes, tot) + 2}" for k in range(8)] + [f"memcpy.0:{max(nodes, tot) + 2}"] + list(extra_uw)
        hs.append(H(name=f"C05.{name}.g{t}_{b}", file=FC, entry=entry, enforce=enforce, funcs=[enforce] if enforce else ["checkpoint_full_take", "checkpoint_full_restore"],
                    geometry=(t, b), kind="bounded", bound=f"reduced arena geometry B_TOTAL_EXP={t}, B_BLOCK_EXP={b}: all well-formed trees, all arena contents",
                    unwindset=tuple(uw), tiers=tiers, timeout=to, mem_gb=16, canaries=canaries, objbits=8, desc=desc))
    return hs

G_Q = [((4, 1), ("quick", "thorough"), 900)]
G_T = [((5, 2), ("thorough",), 3600)]
HARNESSES = (
    ck("ckpt_round_trip", "h_round_trip", None, "real take, arbitrary clobbering of tree and memory, real restore: tree identical, every byte of every live block identical, cursor identical", G_Q + G_T, canaries=2)
    + ck("ckpt_take", "h_take", "checkpoint_full_take", "contract: returns buf+hdr+alloc_bytes, writes exactly that range, stores every live byte at its address-ordered position, arena untouched", G_Q + G_T)
    + ck("ckpt_restore", "h_restore", "checkpoint_full_restore", "contract: foreign record -> NULL and nothing assigned; own record -> tree and live bytes restored, cursor advanced by hdr+alloc_bytes", G_Q + G_T, canaries=2)
)
EXPLANATION = "filled in below"
ASSUMPTIONS = []
LEVEL_TEXT = "x"
LEVEL_NOTE = "x"
TECHNIQUE = "x"
DESIGN_REF = "DESIGN.md §4 C05"
