/* C20 - statistics output is well-formed and consistent with what happened: src/log/stats.c (real text).
 * Per-call contracts: stats_take, stats_on_gvt, stats_file_final_write. stdio / timers / memory statistics are stubs
 * (VERIF_STUB): fwrite records the chunk sequence. */
#include "verif_harness.h"
#include <stdlib.h>
#include <string.h>
#include "log/stats.c"

struct simulation_configuration global_config;
__thread rid_t rid;
nid_t nid, n_nodes;
lp_id_t n_lps_node;

#define MAXCH 48
#define MAXCP 104
static FILE *chunk_f[MAXCH];
static size_t chunk_sz[MAXCH];
static unsigned char chunk_data[MAXCH][MAXCP];
static unsigned n_chunks;
static FILE fake_files[6];

/* ---- VERIF_STUB stdio / OS */
size_t fwrite(const void *p, size_t sz, size_t n, FILE *f)
{
	if(n_chunks < MAXCH) {
		chunk_f[n_chunks] = f;
		chunk_sz[n_chunks] = sz * n;
		for(size_t i = 0; i < MAXCP; i++)
			if(i < sz * n)
				chunk_data[n_chunks][i] = ((const unsigned char *)p)[i];
	}
	n_chunks++;
	return n;
}
#ifndef VERIF_NATIVE
/* exact models (plain loops) of the two string functions used on the metric names */
size_t strnlen(const char *s, size_t m)
{
	size_t n = 0;
	while(n < m && s[n])
		n++;
	return n;
}
size_t strlen(const char *s)
{
	size_t n = 0;
	while(s[n])
		n++;
	return n;
}
#endif
int fflush(FILE *f) { (void)f; return 0; }
int printf(const char *fmt, ...) { (void)fmt; return 0; }
int puts(const char *s) { (void)s; return 0; }
int fclose(FILE *f) { (void)f; return 0; }
int setvbuf(FILE *f, char *b, int m, size_t s) { (void)f; (void)b; (void)m; (void)s; return 0; }
unsigned long nondet_ulong(void);
#ifndef VERIF_NATIVE
int gettimeofday(struct timeval *tv, void *tz) { (void)tz; tv->tv_sec = (long)(nondet_ulong() % 100000); tv->tv_usec = 0; return 0; }
#endif
int mem_stat_setup(void) { return 0; }
size_t mem_stat_rss_max_get(void) { return nondet_ulong(); }
size_t mem_stat_rss_current_get(void) { return nondet_ulong(); }
FILE *io_file_tmp_get(void) { return &fake_files[5]; }
static int64_t load_size[6];
void *file_memory_load(FILE *f, int64_t *sz)
{
	unsigned k = (unsigned)(f - fake_files);
	*sz = load_size[k < 6 ? k : 0];
	void *b = malloc(64);
	VASSUME(b != NULL);
	return b;
}
FILE *file_open(const char *t, const char *fmt, ...) { (void)t; (void)fmt; return &fake_files[4]; }
void vlogger(enum log_level l, char *f, unsigned n, const char *fmt, ...) { (void)l; (void)f; (void)n; (void)fmt; }
void mpi_blocking_data_send(const void *d, int s, nid_t dst) { (void)d; (void)s; (void)dst; }
/* VERIF_STUB mpi_blocking_data_rcv: rank `src` sends its struct stats_global (announcing slave_threads threads), then its
 * node array and one array per thread; the stub counts what the master asks for */
static unsigned rcv_calls, slave_threads;
static struct stats_global slave_hdr;
void *mpi_blocking_data_rcv(int *s, nid_t src)
{
	(void)src;
	void *b;
	if(rcv_calls == 0) {
		slave_hdr.threads_count = slave_threads;
		b = malloc(sizeof(slave_hdr));
		VASSUME(b != NULL);
		memcpy(b, &slave_hdr, sizeof(slave_hdr));
		if(s)
			*s = (int)sizeof(slave_hdr);
	} else {
		b = malloc(8);
		VASSUME(b != NULL);
		if(s)
			*s = 8;
	}
	rcv_calls++;
	return b;
}

static void env_reset(void)
{
	n_chunks = 0;
	global_config.stats_file = "out";
	global_config.log_level = LOG_SILENT;
	static FILE *tmps[3];
	tmps[0] = &fake_files[0];
	tmps[1] = &fake_files[1];
	tmps[2] = &fake_files[2];
	stats_tmps = tmps;
	stats_node_tmp = &fake_files[3];
}

/* stats_take: exactly one counter moves, by exactly the sample */
void h_stats_take(void)
{
	env_reset();
	VIN_ARR(uint64_t, in_s, STATS_COUNT);
	VIN(unsigned, which);
	VIN(unsigned, g);
	VIN(uint64_t, c);
	VASSUME(which < STATS_COUNT && g < STATS_COUNT);
	for(unsigned k = 0; k < STATS_COUNT; k++)
		stats_cur.s[k] = in_s[k];
	stats_take((enum stats_thread_type)which, c);
	VASSERT(stats_cur.s[g] == in_s[g] + (g == which ? c : 0), "C20.take exactly the named counter moves, by exactly the sample");
	VASSERT(stats_retrieve((enum stats_thread_type)g) == stats_cur.s[g], "C20.take stats_retrieve reads the same counter");
	VCANARY("h_stats_take reachable");
}

/* stats_on_gvt: one per-thread record carrying the counters as they were, counters reset; thread 0 adds the node record */
void h_stats_on_gvt(void)
{
	env_reset();
	VIN_ARR(uint64_t, in_s, STATS_COUNT);
	VIN(unsigned, in_rid);
	VIN(simtime_t, gvt);
	VIN(unsigned, g);
	VIN(bool, enabled);
	VASSUME(in_rid < 3 && g < STATS_COUNT && g != STATS_REAL_TIME_GVT && gvt == gvt);
	rid = in_rid;
	nid = 0;
	if(!enabled)
		global_config.stats_file = NULL;
	for(unsigned k = 0; k < STATS_COUNT; k++)
		stats_cur.s[k] = in_s[k];
	stats_on_gvt(gvt);
	if(!enabled) {
		VASSERT(n_chunks == 0, "C20.on_gvt nothing is written when no statistics file is requested");
	} else {
		VASSERT(n_chunks == (in_rid == 0 ? 2U : 1U), "C20.on_gvt one record per thread per GVT, plus the node record from thread 0");
		VASSERT(chunk_f[0] == stats_tmps[in_rid] && chunk_sz[0] == sizeof(struct stats_thread), "C20.on_gvt the thread record goes to the calling thread's file and has the documented size");
		uint64_t rec;
		memcpy(&rec, &chunk_data[0][8 * g], 8);
		VASSERT(rec == in_s[g], "C20.on_gvt the record reports exactly the counters accumulated since the previous record");
		VASSERT(stats_cur.s[g] == 0, "C20.on_gvt counters restart from zero after a record");
		if(in_rid == 0) {
			simtime_t rg;
			memcpy(&rg, &chunk_data[1][0], 8);
			VASSERT(chunk_f[1] == stats_node_tmp && chunk_sz[1] == 16 && rg == gvt, "C20.on_gvt the node record is 16 bytes and carries the GVT value");
		}
	}
	VCANARY("h_stats_on_gvt reachable");
}

/* stats_file_final_write: the chunk sequence is the documented layout */
void h_final_write(void)
{
	env_reset();
	VIN(unsigned, threads);
	VIN(int64_t, node_sz);
	VIN(int64_t, t0_sz);
	VIN(int64_t, t1_sz);
	VIN(int64_t, t2_sz);
	VASSUME(threads >= 1 && threads <= 3 && node_sz >= 0 && node_sz <= 64 && t0_sz >= 0 && t0_sz <= 8 && t1_sz >= 0 && t1_sz <= 8 && t2_sz >= 0 && t2_sz <= 8);
	global_config.n_threads = threads;
	n_nodes = 1;
	load_size[3] = node_sz;
	load_size[0] = t0_sz;
	load_size[1] = t1_sz;
	load_size[2] = t2_sz;
	FILE *out = &fake_files[4];
	stats_file_final_write(out);
	unsigned k = 0;
	VASSERT(chunk_sz[k] == 2 && chunk_data[k][0] == 0x0f && chunk_data[k][1] == 0xf0, "C20.final endianness magic first");
	k++;
	int64_t cnt;
	memcpy(&cnt, chunk_data[k], 8);
	VASSERT(chunk_sz[k] == 8 && cnt == STATS_COUNT, "C20.final count of thread metrics");
	k++;
	for(unsigned i = 0; i < STATS_COUNT; i++) {
		VASSERT(chunk_sz[k] == 1 && chunk_sz[k + 1] == chunk_data[k][0] && chunk_data[k][0] == strlen(stats_names[i]),
		    "C20.final metric names as Pascal strings (length byte, then that many characters)");
		k += 2;
	}
	memcpy(&cnt, chunk_data[k], 8);
	VASSERT(chunk_sz[k] == 8 && cnt == 1, "C20.final count of ranks");
	k++;
	VASSERT(chunk_sz[k] == sizeof(struct stats_global) && sizeof(struct stats_global) == 72, "C20.final node header of 9 x 8 bytes");
	uint64_t tc;
	memcpy(&tc, chunk_data[k], 8);
	k++;
	memcpy(&cnt, chunk_data[k], 8);
	VASSERT(chunk_sz[k] == 8 && cnt == node_sz && chunk_sz[k + 1] == (size_t)node_sz, "C20.final node GVT array preceded by its size");
	k += 2;
	memcpy(&cnt, chunk_data[k], 8);
	VASSERT(chunk_sz[k] == 8 && cnt == t0_sz && chunk_sz[k + 1] == (size_t)t0_sz, "C20.final thread 0 array preceded by its size");
	k += 2;
	if(threads >= 2) {
		memcpy(&cnt, chunk_data[k], 8);
		VASSERT(chunk_sz[k] == 8 && cnt == t1_sz && chunk_sz[k + 1] == (size_t)t1_sz, "C20.final thread 1 array preceded by its size");
		k += 2;
	}
	if(threads >= 3) {
		memcpy(&cnt, chunk_data[k], 8);
		VASSERT(chunk_sz[k] == 8 && cnt == t2_sz && chunk_sz[k + 1] == (size_t)t2_sz, "C20.final thread 2 array preceded by its size");
		k += 2;
	}
	VASSERT(n_chunks == k, "C20.final nothing else is written");
	for(unsigned i = 0; i < MAXCH; i++)
		if(i < n_chunks)
			VASSERT(chunk_f[i] == out, "C20.final everything goes to the output file");
	VCANARY("h_final_write reachable");
}

/* stats_files_receive: the master appends, for every other rank, that rank's header followed by exactly the
 * (1 + t_cnt) size-prefixed arrays THAT rank announces - whatever the master's own thread count is */
void h_files_receive(void)
{
	env_reset();
	VIN(unsigned, master_threads);
	VIN(unsigned, in_slave_threads);
	VASSUME(master_threads >= 1 && master_threads <= 3 && in_slave_threads >= 1 && in_slave_threads <= 3);
	global_config.n_threads = master_threads;
	slave_threads = in_slave_threads;
	rcv_calls = 0;
	n_nodes = 2;
	FILE *out = &fake_files[4];
	stats_files_receive(out);
	VASSERT(rcv_calls == 2 + in_slave_threads, "C20.receive the master collects exactly the header, the node array and one array per thread of the SENDING rank");
	VASSERT(n_chunks == 1 + 2 * (1 + in_slave_threads), "C20.receive the rank's block is its header followed by (1 + t_cnt) size-prefixed arrays, as the layout documents");
	VASSERT(chunk_sz[0] == sizeof(struct stats_global), "C20.receive the rank's header is copied verbatim");
	uint64_t tc;
	memcpy(&tc, chunk_data[0], 8);
	VASSERT(tc == in_slave_threads, "C20.receive the header announces the sending rank's thread count");
	for(unsigned k = 0; k < 4; k++)
		if(k < 1 + in_slave_threads) {
			int64_t sz;
			memcpy(&sz, chunk_data[1 + 2 * k], 8);
			VASSERT(chunk_sz[1 + 2 * k] == 8 && sz == 8 && chunk_sz[2 + 2 * k] == 8, "C20.receive every array is preceded by its size");
		}
	VCANARY("h_files_receive reachable");
	VCOVER(master_threads != in_slave_threads, "h_files_receive covers ranks with different thread counts");
}

/* stats_init: the calling thread's temporary file goes into the calling thread's slot, other slots untouched */
void h_stats_init(void)
{
	env_reset();
	VIN(unsigned, in_rid);
	VIN(unsigned, g);
	VASSUME(in_rid < 3 && g < 3);
	rid = in_rid;
	FILE *before = stats_tmps[g];
	stats_init();
	VASSERT(stats_tmps[in_rid] == &fake_files[5], "C20.init the calling thread's records go to a file of its own, stored in its own slot");
	VASSERT(g == in_rid || stats_tmps[g] == before, "C20.init other threads' files are untouched");
	VCANARY("h_stats_init reachable");
}

/* stats_global_fini on a single rank: header fields, layout writer called on the opened file */
void h_global_fini(void)
{
	env_reset();
	VIN(unsigned, threads);
	VIN(lp_id_t, n_lps);
	VASSUME(threads >= 1 && threads <= 3);
	global_config.n_threads = threads;
	n_lps_node = n_lps;
	n_nodes = 1;
	nid = 0;
	static FILE *heap_tmps[3];
	heap_tmps[0] = &fake_files[0]; heap_tmps[1] = &fake_files[1]; heap_tmps[2] = &fake_files[2];
	stats_tmps = malloc(3 * sizeof(FILE *));
	VASSUME(stats_tmps != NULL);
	for(unsigned k = 0; k < 3; k++)
		stats_tmps[k] = heap_tmps[k];
	stats_global_fini();
	VASSERT(stats_glob_cur.threads_count == threads && stats_glob_cur.lps_count == n_lps, "C20.fini the node header announces the rank's thread and LP counts");
	uint64_t tc;
	unsigned hdr = 2 + 2 * STATS_COUNT + 1;
	memcpy(&tc, chunk_data[hdr], 8);
	VASSERT(chunk_sz[hdr] == sizeof(struct stats_global) && tc == threads, "C20.fini the header written to the file carries the thread count used for the per-thread arrays");
	VASSERT(n_chunks == hdr + 1 + 2 + 2 * threads, "C20.fini one size-prefixed array per thread follows the node array");
	VCANARY("h_global_fini reachable");
}
