# C10 - the serial runtime implements the reference semantics. Bounded only.
LEVEL = "other"
F = "harness/c10_serial.c"
def S(name, entry, desc, ne, tiers, canaries=1, to=1200):
    n = ne + 4
    uw = [f"{entry}.{k}:{n + 2}" for k in range(10)] + [f"idx.0:{n + 1}", f"idx_pl.0:{n + 1}", f"heap_ok.0:{ne + 2}", f"in_heap.0:{ne + 2}", f"env_reset.0:{n + 1}", "env_reset.1:4",
          "ScheduleNewEvent_serial.0:3", "ScheduleNewEvent_serial.1:5", "w_extract.0:6", f"serial_simulation_run.0:{ne + 2}", "serial_simulation_run.1:6",
          "serial_simulation_init.0:4", "serial_simulation_init.1:3", "serial_simulation_init.2:3", "serial_simulation_init.3:3", "serial_simulation_fini.0:4", "serial_simulation_fini.1:3", "memcmp.0:2"]
    return H(name=f"C10.{name}.ne{ne}", file=F, entry=entry, funcs=[], kind="bounded", defs=(f"NE={ne}",),
             bound=f"at most {ne} events in total, 2 LPs, payload size 0 (payload tie-break: C16)", unwindset=tuple(uw), tiers=tiers, timeout=to,
             mem_gb=12, canaries=canaries, desc=desc)
def fam(ne, tiers):
    return [
        S("schedule_serial", "h_schedule_serial", "ScheduleNewEvent_serial/heap_insert: exactly the new event added with its fields, nothing lost, heap order kept", ne, tiers),
        S("extract_serial", "h_extract_serial", "heap_extract with msg_is_before: returns a minimum, others kept once, heap order kept", ne, tiers),
        S("run", "h_run", "serial_simulation_run against an arbitrary valid model (<= 2 scheduled events): deliveries follow the happens-before order, each event at most once, nothing lost, root stable during a dispatch", ne, tiers, canaries=2),
        S("init_fini", "h_init_fini", "LP_INIT once per LP before anything else; LP_FINI once per LP at the end", ne, tiers),
    ]
HARNESSES = fam(4, ("quick",)) + fam(5, ("thorough",))
for h in HARNESSES:
    h["funcs"] = {"h_schedule_serial": ["ScheduleNewEvent_serial", "heap_insert"], "h_extract_serial": ["heap_extract"], "h_run": ["serial_simulation_run"], "h_init_fini": ["serial_simulation_init", "serial_simulation_fini"]}[h["entry"]]
EXPLANATION = ("The real serial.c (with heap.h/array.h macros) is executed symbolically against an arbitrary valid model stub (each dispatch may schedule one "
               "event not before the current one, predicates answer arbitrarily): every delivery is a msg_is_before-minimum of the pending events, deliveries "
               "never go back in the order, no event is delivered twice or lost, the current event stays the heap root while new events are inserted, "
               "LP_INIT/LP_FINI are delivered once per LP first/last. Bounded to a handful of events: a stand-in, never counted as proved. The induction "
               "'every step picks a minimum => the run is the textbook event-list order' is the meta-argument.")
ASSUMPTIONS = ["at most 4 (quick) / 5 (thorough) events, 2 LPs, empty payloads", "timers, statistics, allocators as stubs; the event heap is given spare capacity (never reallocates: checked)"]
LEVEL_TEXT = "Bounded contract check of the serial run loop and its heap against an arbitrary valid model on the real serial.c; never counted as proved."
LEVEL_NOTE = "Trusted: CBMC; bounds; stubs for timers/statistics/allocators; payload tie-break delegated to C16."
TECHNIQUE = "CBMC bounded harness lemmas with ghost dispatch log on the real serial.c / heap.h"
DESIGN_REF = "DESIGN.md §4 C10"

# the packing of a scheduled event (msg_allocator_pack, used by ScheduleNewEvent_serial): fields and payload bytes exact
import importlib.util as _ilu, os as _os
_sp = _ilu.spec_from_file_location("spec_C11_for_C10", _os.path.join(_os.path.dirname(__file__), "C11.py"))
_m = _ilu.module_from_spec(_sp); _m.H = H; _sp.loader.exec_module(_m)
HARNESSES = HARNESSES + [dict(next(h for h in _m.OWN if h["name"] == "C11.msg_allocator_pack"), name="C10.msg_allocator_pack")]
_sp15 = _ilu.spec_from_file_location("spec_C15_for_C10", _os.path.join(_os.path.dirname(__file__), "C15.py"))
_m15 = _ilu.module_from_spec(_sp15); _m15.H = H; _sp15.loader.exec_module(_m15)
for _h in _m15.heapint(11, ("quick", "thorough"), 900):
    _h = dict(_h); _h["name"] = _h["name"].replace("C15.", "C10."); HARNESSES.append(_h)
