/* C11 - dynamic array macros of src/datatypes/array.h (real text), on arrays whose item object has EXACTLY `capacity`
 * elements (so one element too far is a bounds violation). Capacities 8 and 16 (INIT_SIZE_ARRAY and its double). */
#include "verif_harness.h"
#include <stdlib.h>
#include <string.h>
#include "datatypes/array.h"

void vlogger(enum log_level l, char *f, unsigned n, const char *fmt, ...) { (void)l; (void)f; (void)n; (void)fmt; }

typedef long elem_t;
static dyn_array(elem_t) A;
static elem_t obj8[8], obj16[16], obj32[32];

#ifndef VERIF_NATIVE
/* VERIF_STUB realloc: the new object has exactly the requested size (8, 16 or 32 elements), old content is copied */
void *realloc(void *p, size_t n)
{
	elem_t *dst = n == sizeof(obj8) ? obj8 : n == sizeof(obj16) ? obj16 : obj32;
	__CPROVER_assert(n == sizeof(obj8) || n == sizeof(obj16) || n == sizeof(obj32), "C11.harness realloc sizes are 8, 16 or 32 elements");
	__CPROVER_assert(dst != p, "C11.harness realloc to a different capacity");
	size_t old = p == (void *)obj8 ? sizeof(obj8) : p == (void *)obj16 ? sizeof(obj16) : sizeof(obj32);
	for(size_t i = 0; i < sizeof(obj32); i++)
		if(i < n && i < old)
			((unsigned char *)dst)[i] = ((unsigned char *)p)[i];
	return dst;
}
void *memmove(void *dst, const void *src, size_t n)
{
	if((const char *)dst <= (const char *)src)
		for(size_t i = 0; i < n; i++)
			((unsigned char *)dst)[i] = ((const unsigned char *)src)[i];
	else
		for(size_t i = n; i > 0; i--)
			((unsigned char *)dst)[i - 1] = ((const unsigned char *)src)[i - 1];
	return dst;
}
#endif

#define ARR_SETUP()                                                                                                    \
	VIN(bool, big);                                                                                                \
	VIN(array_count_t, cnt);                                                                                       \
	VIN_ARR(elem_t, in_e, 16);                                                                                     \
	VIN(array_count_t, g);                                                                                         \
	A.items = big ? obj16 : obj8;                                                                                  \
	A.capacity = big ? 16 : 8;                                                                                     \
	VASSUME(cnt <= A.capacity && g < 16);                                                                          \
	A.count = cnt;                                                                                                 \
	for(unsigned k_ = 0; k_ < 16; k_++)                                                                            \
		if(k_ < cnt)                                                                                           \
			A.items[k_] = in_e[k_]

void h_add_at(void)
{
	ARR_SETUP();
	VIN(array_count_t, i);
	VIN(elem_t, e);
	VASSUME(i <= cnt);
	array_add_at(A, i, e);
	VASSERT(A.count == cnt + 1 && A.count <= A.capacity, "C11.array add_at count and capacity");
	VASSERT(A.items[i] == e, "C11.array add_at the element sits at the requested index");
	VASSERT(g >= cnt || A.items[g < i ? g : g + 1] == in_e[g], "C11.array add_at every other element is kept, the tail shifted by one");
	VCANARY("h_add_at reachable");
	VCOVER(cnt == 7 && !big, "h_add_at covers an insertion that fills the array exactly");
	VCOVER(cnt == 8 && !big, "h_add_at covers an insertion that needs a larger array");
}

void h_push_pop(void)
{
	ARR_SETUP();
	VIN(elem_t, e);
	array_push(A, e);
	VASSERT(A.count == cnt + 1 && A.count <= A.capacity && A.items[cnt] == e, "C11.array push appends");
	VASSERT(g >= cnt || A.items[g] == in_e[g], "C11.array push keeps the content");
	elem_t r = array_pop(A);
	VASSERT(r == e && A.count == cnt, "C11.array pop returns the last element");
	VCANARY("h_push_pop reachable");
}

void h_remove_at(void)
{
	ARR_SETUP();
	VIN(array_count_t, i);
	VASSUME(i < cnt);
	elem_t r = array_remove_at(A, i);
	VASSERT(r == in_e[i] && A.count == cnt - 1 && A.count <= A.capacity, "C11.array remove_at returns the removed element");
	VASSERT(g >= cnt - 1 || A.items[g] == in_e[g < i ? g : g + 1], "C11.array remove_at closes the gap and keeps the rest");
	VCANARY("h_remove_at reachable");
	VCOVER(big && cnt == 6, "h_remove_at covers a removal that shrinks the array");
}

void h_truncate_lazy(void)
{
	ARR_SETUP();
	VIN(array_count_t, n);
	VIN(bool, lazy);
	if(lazy) {
		VASSUME(n < cnt);
		array_lazy_remove_at(A, n);
		VASSERT(A.count == cnt - 1, "C11.array lazy_remove count");
		VASSERT(g >= cnt - 1 || A.items[g] == (g == n ? in_e[cnt - 1] : in_e[g]), "C11.array lazy_remove moves the last element into the hole");
	} else {
		VASSUME(n <= cnt);
		array_truncate_first(A, n);
		VASSERT(A.count == cnt - n, "C11.array truncate_first count");
		VASSERT(g >= cnt - n || A.items[g] == in_e[g + n], "C11.array truncate_first keeps the tail in order");
	}
	VCANARY("h_truncate_lazy reachable");
}

void h_reserve(void)
{
	ARR_SETUP();
	VIN(array_count_t, n);
	VASSUME(n <= 8);
	array_reserve(A, n);
	VASSERT(A.count == cnt && A.capacity > cnt + n && A.capacity <= 32, "C11.array reserve guarantees room for n more elements");
	VASSERT(g >= cnt || A.items[g] == in_e[g], "C11.array reserve keeps the content");
	VCANARY("h_reserve reachable");
}
