/* C06 - remote path, loop-free facts (all inputs): id stamping of remote messages (src/gvt/gvt.h inline functions) and
 * the size classes that let the receiver tell control messages, anti-messages and events apart (src/lp/msg.h macros). */
#include "verif_harness.h"
#include "gvt/gvt.h"
#include "distributed/control_msg.h"

__thread _Bool gvt_phase;
__thread uint32_t remote_msg_seq[2][MAX_NODES];
__thread uint32_t remote_msg_received[2];
__thread rid_t rid;
nid_t nid, n_nodes;

static struct lp_msg m1, m2;

void h_remote_ids(void)
{
	VIN(nid_t, nid1);
	VIN(nid_t, nid2);
	VIN(rid_t, rid1);
	VIN(rid_t, rid2);
	VIN(bool, ph1);
	VIN(bool, ph2);
	VIN(bool, anti_phase);
	VIN(nid_t, dest);
	VIN(uint32_t, seq0);
	VASSUME(nid1 >= 0 && nid1 < MAX_NODES && nid2 >= 0 && nid2 < MAX_NODES && rid1 < MAX_THREADS && rid2 < MAX_THREADS && dest >= 0 && dest < MAX_NODES);
	remote_msg_seq[0][dest] = remote_msg_seq[1][dest] = seq0;
	remote_msg_received[0] = remote_msg_received[1] = 0;
	/* sender 1 stamps an event */
	nid = nid1; rid = rid1; gvt_phase = ph1;
	gvt_remote_msg_send(&m1, dest);
	VASSERT(m1.raw_flags > (MSG_FLAG_ANTI | MSG_FLAG_PROCESSED), "C06.remote a remote event's word is > 3, so the receiver's 'previous flags > 3' test separates remote from local exactly");
	VASSERT((m1.raw_flags & 1U) == (uint32_t)ph1 && (m1.m_seq & 1U) == (uint32_t)ph1, "C06.remote the GVT colour of the send travels with the event");
	uint32_t id1 = m1.raw_flags & ~3U, seq1 = m1.m_seq;
	/* sender 2 (another thread or rank) stamps an event to the same destination */
	nid = nid2; rid = rid2; gvt_phase = ph2;
	gvt_remote_msg_send(&m2, dest);
	uint32_t id2 = m2.raw_flags & ~3U;
	VASSERT((nid1 == nid2 && rid1 == rid2) || id1 != id2, "C06.remote events of different sender threads never share an identifier (no foreign anti-message can match)");
	VASSERT(!(nid1 == nid2 && rid1 == rid2 && ph1 == ph2) || m2.m_seq != seq1, "C06.remote consecutive events of one sender to one rank differ in their sequence number");
	/* receiver side of event 1 */
	struct lp_msg r1 = m1;
	gvt_remote_msg_receive(&r1);
	VASSERT(r1.raw_flags == id1 && (r1.raw_flags & 3U) == 0 && remote_msg_received[ph1] == 1, "C06.remote reception counts the event under its colour and clears the two flag bits");
	/* the sender later cancels event 1: the anti-message is the same buffer */
	nid = nid1; rid = rid1; gvt_phase = anti_phase;
	gvt_remote_anti_msg_send(&m1, dest);
	struct lp_msg a1 = m1;
	gvt_remote_anti_msg_receive(&a1);
	VASSERT((a1.raw_flags & ~3U) == id1 && a1.m_seq == seq1 && (a1.raw_flags & 3U) == MSG_FLAG_ANTI, "C06.remote the anti-message carries exactly the (id, sequence) pair of its event plus the ANTI mark");
	VASSERT(remote_msg_received[anti_phase] == (anti_phase == ph1 ? 2U : 1U), "C06.remote the anti-message is counted under the colour it was sent with");
	VCANARY("h_remote_ids reachable");
}

void h_size_classes(void)
{
	VIN(uint32_t, pls);
	struct lp_msg m;
	m.pl_size = pls;
	size_t anti = msg_remote_anti_size();
	size_t ev = msg_remote_size(&m);
	VASSERT(sizeof(enum msg_ctrl_code) < anti, "C06.sizes a control message is shorter than an anti-message");
	VASSERT(anti < ev, "C06.sizes an anti-message is shorter than every event, whatever its payload size");
	/* the receive side recovers the payload size from the transfer size */
	VASSERT(ev - offsetof(struct lp_msg, pl) + msg_preamble_size() == pls, "C06.sizes the receiver's payload size computation inverts msg_remote_size");
	VCANARY("h_size_classes reachable");
}
