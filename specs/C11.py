# C11 - memory safety / no UB for every valid model: CBMC's built-in safety families on every function under contract,
# plus dedicated harnesses for the anchors (message allocator, queue shutdown, checkpoint sizing, Random()).
LEVEL = "other"
import importlib.util as _ilu, os as _os
def _load(pid):
    sp = _ilu.spec_from_file_location(f"spec_{pid}_for_C11", _os.path.join(_os.path.dirname(__file__), pid + ".py"))
    m = _ilu.module_from_spec(sp); m.H = H; sp.loader.exec_module(m)
    return m
F = "harness/c11_msg_allocator.c"
UW = tuple([f"{e}.{k}:10" for e in ("h_alloc", "h_free", "h_on_gvt", "h_fini", "h_pack") for k in range(6)] + ["memcpy.0:50", "h_pack.6:50"] +
           ["occurrences.0:10", "msg_allocator_on_gvt.0:6", "msg_allocator_fini.0:6", "msg_allocator_fini.1:6"])
def A(name, entry, desc, canaries=1):
    return H(name="C11." + name, file=F, entry=entry, funcs=["msg_allocator_" + name.split("_", 2)[-1]], kind="bounded", bound="pools of at most 3 buffers, payload <= 4096",
             unwindset=UW, timeout=900, mem_gb=8, canaries=canaries, desc=desc)
OWN = [
    A("msg_allocator_alloc", "h_alloc", "buffer has room for header + payload, pl_size recorded, pooled buffer reused for small requests", canaries=2),
    A("msg_allocator_free", "h_free", "small buffers pooled once and stay allocated, large ones released"),
    A("msg_allocator_on_gvt", "h_on_gvt", "deferred buffers released exactly when strictly below the GVT, each once; the lazy removal loses no entry", canaries=2),
    A("msg_allocator_pack", "h_pack", "fields and payload bytes copied exactly (payload <= 48 bytes, also past the 32 inline bytes), inside the buffer", canaries=2),
    A("msg_allocator_fini", "h_fini", "both pools emptied, every pooled buffer released once (CBMC free checks)"),
]
FA = "harness/c11_array.c"
UWA = tuple([f"{e}.{k}:18" for e in ("h_add_at", "h_push_pop", "h_remove_at", "h_truncate_lazy", "h_reserve") for k in range(4)] +
            ["realloc.0:258", "memmove.0:130", "memmove.1:130", "h_reserve.4:4", "h_reserve.5:4"])
def AR(name, entry, desc, canaries=1):
    return H(name="C11.array_" + name, file=FA, entry=entry, funcs=["array_" + name], kind="bounded", bound="capacities 8 and 16 (item object of exactly that many elements), any count, any index",
             unwindset=UWA, timeout=900, mem_gb=8, canaries=canaries, desc=desc)
OWN = OWN + [
    AR("add_at", "h_add_at", "insertion at any index: element placed, tail shifted by one, nothing written past the item object (also when the array is filled exactly or must grow)", canaries=3),
    AR("push_pop", "h_push_pop", "push appends (growing when full), pop returns the last element"),
    AR("remove_at", "h_remove_at", "removal closes the gap, returns the element, shrinks without losing content", canaries=2),
    AR("truncate_lazy", "h_truncate_lazy", "truncate_first keeps the tail in order; lazy_remove_at moves the last element into the hole"),
    AR("reserve", "h_reserve", "reserve guarantees room for n more elements and keeps the content"),
]
def _pick(pid, prefixes, tier="quick"):
    out = []
    for h in _load(pid).HARNESSES:
        if tier in h["tiers"] and any(h["name"].startswith(p) for p in prefixes):
            h = dict(h)
            h["name"] = "C11." + h["name"]
            out.append(h)
    return out
HARNESSES = OWN + _pick("C18", ["C18.Random", "C18.RandomU64"]) + _pick("C15", ["C15.fini"]) + \
    _pick("C06", ["C06.process_lp_fini", "C06.fossil_history"]) + _pick("C12", ["C12.rs_malloc", "C12.rs_free", "C12.buddy_free.g12", "C12.buddy_malloc.g12"]) + \
    _pick("C05", ["C05.ckpt_take", "C05.ckpt_restore"])
_c05 = _load("C05")
HARNESSES = HARNESSES + [
    H(name="C11.model_allocator_lp_fini", file=_c05.FMM, entry="h_lp_fini_modular", funcs=["model_allocator_lp_fini"], kind="bounded", bound="<= 3 arenas, <= 3 logs",
      unwindset=_c05._UWM, timeout=600, mem_gb=8, objbits=8, geometry=(4, 1),
      desc="LP shutdown of the allocator: every checkpoint and every arena released exactly once, then the two tables"),
    dict(next(h for h in _c05.HARNESSES if h["name"] == "C05.multi_take.modular"), name="C11.C05.multi_take.modular"),
]
HARNESSES = [h for h in HARNESSES if "RandomRange" not in h["name"]]
EXPLANATION = ("Every harness of every property runs with CBMC's safety families (--bounds-check --pointer-check --pointer-overflow-check "
               "--div-by-zero-check --signed-overflow-check --undefined-shift-check --pointer-primitive-check) on the real code, so each function under "
               "contract is shown free of out-of-bounds / use-after-free / double free / invalid shift / signed overflow for ALL states satisfying its "
               "precondition (for the bounded harnesses: within the stated bound). This check runs the dedicated anchors: the message allocator "
               "(pools, deferred release at GVT), queue shutdown (msg_queue_fini), LP shutdown and fossil release, rs_malloc/rs_free with the "
               "checkpoint-size accounting invariant, the one-arena checkpoint writer/reader (buffer of exactly full_ckpt_size bytes never exceeded), "
               "and Random()/RandomU64() for all generator states. Modular reading: callers outside the functions under contract (worker loop, MPI "
               "layer) are assumed to establish the preconditions. Data races are outside (no threads). Known by-the-letter UB NOT claimed: "
               "the lps pointer biased by -lid_node_first, relational comparison of arena addresses (see DESIGN.md).")
ASSUMPTIONS = ["bounds of the reused harnesses as stated in their own properties", "threads / data races not modelled",
               "out-of-object pointer bias of lps and relational comparison of unrelated arena pointers are not checked"]
LEVEL_TEXT = "CBMC safety families on every function under contract (for all states satisfying the precondition; bounded where the host harness is) plus dedicated allocator/queue/checkpoint-sizing anchors."
LEVEL_NOTE = "Trusted: CBMC memory model; libc allocation never fails; bounds of the host harnesses; no threads."
TECHNIQUE = "CBMC built-in safety checks under function contracts / bounded harnesses on the real code"
DESIGN_REF = "DESIGN.md §4 C11"
