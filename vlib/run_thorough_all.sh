#!/bin/sh
# convenience: run every thorough check in turn (hours); prints one summary line per property
cd "$(dirname "$0")/.."
for id in C07 C16 C09 C18 C14 C20 C10 C15 C13 C06 C19 C05 C11 C12; do
  s=$(date +%s)
  ./check $id --tier thorough --no-evidence > /tmp/thorough_$id.log 2>&1
  rc=$?
  e=$(date +%s)
  echo "$id rc=$rc secs=$((e-s)) $(grep -cE '^\s+\[discharged\]' /tmp/thorough_$id.log) discharged, $(grep -cE '^\s+\[ undecided\]|^\s+\[   refuted\]' /tmp/thorough_$id.log) not"
  grep -E '^\s+\[ undecided\]|^\s+\[   refuted\]' /tmp/thorough_$id.log | cut -c1-220
done
