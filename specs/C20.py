# C20 - statistics output well-formed and consistent: per-call contracts of stats.c + counter sites in process.c.
LEVEL = "other"
F = "harness/c20_stats.c"
UW = ("fwrite.0:106", "h_files_receive.0:6", "stats_files_receive.0:7", "stats_files_receive.1:7", "h_stats_take.0:14", "h_stats_on_gvt.0:14", "h_final_write.0:14", "h_final_write.1:50", "stats_file_final_write.0:14", "stats_file_final_write.1:4",
      "strnlen.0:40", "strlen.0:40", "memset.0:200", "memcpy.0:10")
HARNESSES = [
    H(name="C20.stats_take", file=F, entry="h_stats_take", funcs=["stats_take", "stats_retrieve"], unwindset=UW, kind="proof", timeout=600,
      desc="exactly the named counter moves by exactly the sample (ghost counter index), all counter states"),
    H(name="C20.stats_on_gvt", file=F, entry="h_stats_on_gvt", funcs=["stats_on_gvt"], unwindset=UW, kind="proof", timeout=600,
      desc="one sizeof(struct stats_thread) record to the calling thread's file carrying the counters as they were; counters zero afterwards; thread 0 adds one 16-byte node record with the GVT; nothing written without a statistics file (loops are constant)"),
    H(name="C20.final_write", file=F, entry="h_final_write", funcs=["stats_file_final_write"], unwindset=UW, kind="bounded", bound="1 rank, <= 3 threads", timeout=900,
      desc="chunk sequence == documented layout: magic(2), metric count(8), Pascal strings, rank count(8), node header(72), size+node array, per thread size+array; nothing else"),
]
HARNESSES.append(
    H(name="C20.stats_init", file=F, entry="h_stats_init", funcs=["stats_init"], unwindset=UW, kind="proof", timeout=300,
      desc="the calling thread's temporary file is stored in the calling thread's slot; other slots untouched (loop-free)"))
HARNESSES.append(
    H(name="C20.global_fini", file=F, entry="h_global_fini", funcs=["stats_global_fini", "stats_file_final_write"], unwindset=UW + ("h_global_fini.0:5", "stats_global_fini.0:5", "stats_files_receive.0:3"), kind="bounded", bound="1 rank, <= 3 threads", timeout=600,
      desc="single-rank shutdown: header announces thread and LP counts; the file holds one size-prefixed array per thread after the node array"))
HARNESSES.append(
    H(name="C20.files_receive", file=F, entry="h_files_receive", funcs=["stats_files_receive"], unwindset=UW, kind="bounded", bound="2 ranks, 1..3 threads on each (independently)", timeout=900, canaries=2,
      desc="the block appended for another rank = its header + exactly (1 + its t_cnt) size-prefixed arrays, independent of the master's thread count"))
import importlib.util as _ilu, os as _os
_sp = _ilu.spec_from_file_location("spec_C06_for_C20", _os.path.join(_os.path.dirname(__file__), "C06.py"))
_m = _ilu.module_from_spec(_sp); _m.H = H; _sp.loader.exec_module(_m)
HARNESSES = HARNESSES + [
    _m.P("C20.sites.send_anti", "h_send_anti", "counter sites: +1 anti-message per cancelled send, +1 undone event per undone processed entry (bounded history)", 4, ("quick", "thorough"), canaries=3, funcs=["send_anti_messages"]),
    _m.P("C20.sites.silent", "h_silent", "counter sites: +1 silent execution per coast-forward dispatch", 4, ("quick", "thorough"), canaries=2, funcs=["silent_execution"]),
    _m.P("C20.sites.rollback", "h_do_rollback", "counter sites: +1 rollback per do_rollback", 4, ("quick", "thorough"), funcs=["do_rollback"]),
    _m.P("C20.sites.process_msg", "h_process_msg", "counter sites: +1 forward execution per dispatch, checkpoint counted when taken", 4, ("quick", "thorough"), canaries=2, funcs=["process_msg"], replace=("do_rollback",), defs_extra=("PM_MODULAR", "PM_CASE=0")),
]
EXPLANATION = ("Per-call contracts on the real stats.c: stats_take moves exactly one counter; stats_on_gvt writes exactly one per-thread record with the "
               "counters accumulated since the previous record and resets them (thread 0 adds the 16-byte node record with the GVT); the final writer "
               "emits exactly the documented chunk layout. Counter sites in process.c (+1 forward / rollback / undone / silent / anti / checkpoint) are "
               "checked on bounded histories through ghost counters; 'undone <= forward' follows per LP from the history invariant. NOT decided: equal "
               "record counts across threads and non-decreasing GVT column (they need the GVT protocol, C04/C08), and the Python parser.")
ASSUMPTIONS = ["stdio, timers, memory statistics, MPI as stubs (fwrite logs the chunk sequence)", "history length bounded for the counter-site harnesses",
               "cross-thread record-count equality and GVT monotonicity not decided"]
LEVEL_TEXT = "Partial: per-call contracts of the statistics module (all counter states) and counter-site checks on bounded histories; cross-thread consistency not decided."
LEVEL_NOTE = "Trusted: CBMC; stubs for stdio/timers/MPI; bounded histories for counter sites."
TECHNIQUE = "CBMC harness lemmas with a ghost chunk log (fwrite stub) on the real stats.c; ghost counters in process.c harnesses"
DESIGN_REF = "DESIGN.md §4 C20"
