/* stubs/libm.h - VERIF_STUB: assumed contracts for the libm functions the numerical library calls.
 * ASSUMED (IEEE-754 / C Annex F facts only; no accuracy claims):
 *   log : NaN for x<0 or NaN; -inf at 0; finite <= 0 on (0,1]; 0 at 1; finite >= 0 on [1,DBL_MAX]; +inf at +inf
 *   exp : NaN iff x NaN; otherwise in [0,+inf]
 *   sqrt: NaN for x<0 or NaN; for 0 <= x <= DBL_MAX the result is finite, >= 0, and <= max(x,1)
 *   pow : for 0 <= b < 1 and e < 0 (including -inf) the result is in [1,+inf] (never NaN); for b >= 1 finite and any
 *         finite or infinite e the result is >= 0 or +inf (never NaN); otherwise unconstrained
 * floor() is CBMC's own exact model.  Natively the real libm is used. */
#ifndef VERIF_STUB_LIBM_H
#define VERIF_STUB_LIBM_H
#ifndef VERIF_NATIVE
#include <float.h>
#include <math.h>
double nondet_libm_double(void);

double log(double x)
{
	double r = nondet_libm_double();
	if(x != x || x < 0.0)
		__CPROVER_assume(r != r);
	else if(x == 0.0)
		__CPROVER_assume(r == -HUGE_VAL);
	else if(x < 1.0)
		__CPROVER_assume(r <= 0.0 && r >= -DBL_MAX);
	else if(x == 1.0)
		__CPROVER_assume(r == 0.0);
	else if(x <= DBL_MAX)
		__CPROVER_assume(r >= 0.0 && r <= DBL_MAX);
	else
		__CPROVER_assume(r == HUGE_VAL);
	return r;
}

double exp(double x)
{
	double r = nondet_libm_double();
	if(x != x)
		__CPROVER_assume(r != r);
	else
		__CPROVER_assume(r >= 0.0);
	return r;
}

double sqrt(double x)
{
	double r = nondet_libm_double();
	if(x != x || x < 0.0)
		__CPROVER_assume(r != r);
	else if(x <= DBL_MAX)
		__CPROVER_assume(r >= 0.0 && r <= (x > 1.0 ? x : 1.0));
	else
		__CPROVER_assume(r == HUGE_VAL);
	return r;
}

double pow(double b, double e)
{
	double r = nondet_libm_double();
	if(b >= 0.0 && b < 1.0 && e < 0.0)
		__CPROVER_assume(r >= 1.0);
	else if(b >= 1.0 && b <= DBL_MAX && e == e)
		__CPROVER_assume(r >= 0.0);
	return r;
}
#endif
#endif
