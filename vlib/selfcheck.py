#!/usr/bin/env python3
"""setup_cmd: nothing is built ahead of time (every check rebuilds from /repo's working tree);
this only verifies that the offline tool chain the checks need is present."""
import shutil, subprocess, sys
ok = True
for tool in ("goto-cc", "goto-instrument", "cbmc", "gcc", "python3"):
    p = shutil.which(tool)
    print(f"{tool}: {p}")
    ok = ok and p is not None
v = subprocess.run(["cbmc", "--version"], stdout=subprocess.PIPE).stdout.decode().strip()
print("cbmc version", v)
sys.exit(0 if ok else 1)
