#!/usr/bin/env python3
"""Regenerate /verif/MANIFEST.json from the per-property specs (specs/<ID>.py) and vlib/not_applicable.json."""
import importlib.util, json, os, sys, glob
VERIF = os.path.dirname(os.path.dirname(os.path.abspath(__file__)))
sys.path.insert(0, os.path.join(VERIF, "vlib"))
import driver

checks = []
for path in sorted(glob.glob(os.path.join(VERIF, "specs", "C*.py"))):
    pid = os.path.basename(path)[:-3]
    m = driver.load_spec(pid)
    c = dict(property_id=pid,
             quick_cmd=f"./check {pid} --tier quick",
             thorough_cmd=f"./check {pid} --tier thorough",
             evidence_file=f"/verif/evidence/{pid}.json",
             replay_cmd_template=f"./check {pid} --replay {{path}}",
             engine="cbmc-contracts",
             level_claimed=dict(category=m.LEVEL, text=m.LEVEL_TEXT, design_ref=m.DESIGN_REF),
             level_note=m.LEVEL_NOTE,
             technique=m.TECHNIQUE)
    checks.append(c)
na = json.load(open(os.path.join(VERIF, "vlib", "not_applicable.json")))
claimed = {c["property_id"] for c in checks}
na = [n for n in na if n["property_id"] not in claimed]
hooks = json.load(open(os.path.join(VERIF, "vlib", "hooks.json")))
man = dict(
    version=1,
    setup_cmd="python3 vlib/selfcheck.py",
    hooks=hooks,
    engines=[dict(name="cbmc-contracts", path="/verif/vlib/driver.py", serves_properties=sorted(claimed),
                  kind_free_text="contract-based deductive verification: CBMC 6.11 function/loop contracts (goto-cc, "
                                 "goto-instrument --dfcc, cbmc) on the real C sources of /repo, #included by harness translation units")],
    checks=checks,
    not_applicable=na,
    notes="Exit codes of ./check: 0 all obligations discharged; 1 VIOLATION (a listed obligation refuted); 2 undecided "
          "(tool limit / harness no longer compiles / vacuity guard) - never a violation. Bounded obligations are labelled "
          "'bounded' in the evidence and never counted in proof_obligations.")
json.dump(man, open(os.path.join(VERIF, "MANIFEST.json"), "w"), indent=1)
print("MANIFEST.json written:", len(checks), "checks,", len(na), "not applicable")
