/* contracts/msg_order.h - contract of the tie-break comparator (property C16). Included after "lp/msg.h". */
#ifndef VERIF_CONTRACT_MSG_ORDER_H
#define VERIF_CONTRACT_MSG_ORDER_H

/* The comparator is pure (empty frame) and reads nothing outside the two message buffers, whose allocated size is
 * the one msg_allocator_alloc() gives them: offsetof(pl) + max(pl_size, 32) bytes. */
#define MSG_ALLOC_SIZE(pls) (offsetof(struct lp_msg, pl) + ((pls) > MSG_PAYLOAD_BASE_SIZE ? (pls) : MSG_PAYLOAD_BASE_SIZE))

bool msg_is_before_extended(const struct lp_msg *restrict a, const struct lp_msg *restrict b)
__CPROVER_requires(__CPROVER_r_ok(a, MSG_ALLOC_SIZE(a->pl_size)))
__CPROVER_requires(__CPROVER_r_ok(b, MSG_ALLOC_SIZE(b->pl_size)))
__CPROVER_assigns()
/* decided by the cancellation flag, then the type, then the payload size, before any payload byte is looked at */
__CPROVER_ensures(((a->raw_flags & MSG_FLAG_ANTI) != (b->raw_flags & MSG_FLAG_ANTI))
	==> (__CPROVER_return_value == ((a->raw_flags & MSG_FLAG_ANTI) > (b->raw_flags & MSG_FLAG_ANTI))))
__CPROVER_ensures(((a->raw_flags & MSG_FLAG_ANTI) == (b->raw_flags & MSG_FLAG_ANTI) && a->m_type != b->m_type)
	==> (__CPROVER_return_value == (a->m_type > b->m_type)))
__CPROVER_ensures(((a->raw_flags & MSG_FLAG_ANTI) == (b->raw_flags & MSG_FLAG_ANTI) && a->m_type == b->m_type && a->pl_size != b->pl_size)
	==> (__CPROVER_return_value == (a->pl_size < b->pl_size)))
;

#endif
