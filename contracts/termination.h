/* contracts/termination.h - function contracts for src/gvt/termination.c (property C07).
 * Included AFTER "gvt/termination.c" in the harness translation unit, so the clauses can talk about the
 * module's file-static state (lps_to_end, max_t, thr_to_end). The clauses are attached to re-declarations.
 *
 * Ghost reading of the state, taken from the property statement:
 *   an LP is UNSET (predicate not currently known to hold) iff lp->termination_t == verif_unset, where
 *   verif_unset is whatever termination_lp_init() stores for a false predicate (the harness obtains it by running
 *   the real function, so the contracts survive a change of sentinel as long as it is not a legal timestamp);
 *   legal event timestamps are 0 <= t < SIMTIME_MAX (finite, non-negative).
 */
#ifndef VERIF_CONTRACT_TERMINATION_H
#define VERIF_CONTRACT_TERMINATION_H

extern simtime_t verif_unset; /* ghost: the "not terminated" representation */
extern bool verif_unset_known; /* ghost: false only while the harness learns verif_unset */
extern bool verif_pred;       /* ghost: what the model's predicate answers at this call */
extern unsigned verif_bcast;  /* ghost: number of MSG_CTRL_TERMINATION broadcasts issued */

#define T_UNSET(lp) ((lp)->termination_t == verif_unset)
#define T_LEGAL(t) ((t) >= 0.0 && (t) < SIMTIME_MAX)
/* representation invariant of one LP's termination record */
#define T_WF(lp) (T_UNSET(lp) || ((lp)->termination_t >= 0.0 && (lp)->termination_t <= SIMTIME_MAX))
/* max_t dominates every speculative termination time recorded on this thread */
#define T_MAXT(lp) (T_UNSET(lp) || (lp)->termination_t <= max_t || (lp)->termination_t == SIMTIME_MAX)
#define T_LP_VALID(lp) ((lp) == &lps[0] || (lp) == &lps[1])
#define T_OLD_UNSET(lp) (__CPROVER_old((lp)->termination_t) == verif_unset)

void termination_lp_init(struct lp_ctx *lp)
__CPROVER_requires(T_LP_VALID(lp))
__CPROVER_requires(lps_to_end < UINT64_MAX)
__CPROVER_assigns(lp->termination_t, lps_to_end)
/* predicate true at initialization: terminated "since ever" */
__CPROVER_ensures(verif_pred ==> (lp->termination_t == SIMTIME_MAX && lps_to_end == __CPROVER_old(lps_to_end)))
__CPROVER_ensures(!verif_pred ==> ((!verif_unset_known || T_UNSET(lp)) && lps_to_end == __CPROVER_old(lps_to_end) + 1))
/* the value stored for a false predicate can never be mistaken for an event timestamp (t >= 0) */
__CPROVER_ensures(!verif_pred ==> lp->termination_t < 0.0)
__CPROVER_ensures(!verif_unset_known || T_WF(lp))
;

void termination_on_msg_process(struct lp_ctx *lp, simtime_t msg_time)
__CPROVER_requires(T_LP_VALID(lp))
__CPROVER_requires(T_LEGAL(msg_time))
__CPROVER_requires(T_WF(lp) && T_MAXT(lp))
__CPROVER_requires(max_t >= 0.0)
__CPROVER_requires(T_UNSET(lp) ==> lps_to_end >= 1) /* from lps_to_end == #unset */
__CPROVER_assigns(lp->termination_t, lps_to_end, max_t)
/* delta form of lps_to_end == #{unset LPs}: the counter moves exactly when this LP leaves the unset state */
__CPROVER_ensures(lps_to_end == __CPROVER_old(lps_to_end) - ((T_OLD_UNSET(lp) && !T_UNSET(lp)) ? 1U : 0U))
/* an LP that is already terminated is left alone */
__CPROVER_ensures(!T_OLD_UNSET(lp) ==> (lp->termination_t == __CPROVER_old(lp->termination_t) && max_t == __CPROVER_old(max_t)))
/* predicate holds on the state right after this event: terminated AT the event's time, whatever that time is */
__CPROVER_ensures((T_OLD_UNSET(lp) && verif_pred) ==> (!T_UNSET(lp) && lp->termination_t == msg_time))
__CPROVER_ensures((T_OLD_UNSET(lp) && !verif_pred) ==> (T_UNSET(lp) && max_t == __CPROVER_old(max_t)))
__CPROVER_ensures(max_t >= __CPROVER_old(max_t))
__CPROVER_ensures(T_WF(lp) && T_MAXT(lp))
;

void termination_on_lp_rollback(struct lp_ctx *lp, simtime_t msg_time)
__CPROVER_requires(T_LP_VALID(lp))
__CPROVER_requires(T_LEGAL(msg_time))
__CPROVER_requires(T_WF(lp) && T_MAXT(lp))
__CPROVER_requires(lps_to_end < UINT64_MAX)
__CPROVER_assigns(lp->termination_t, lps_to_end)
__CPROVER_ensures(lps_to_end == __CPROVER_old(lps_to_end) + ((!T_OLD_UNSET(lp) && T_UNSET(lp)) ? 1U : 0U))
/* still-unset stays unset; terminated strictly before the rollback point, or since initialization, stays */
__CPROVER_ensures(T_OLD_UNSET(lp) ==> T_UNSET(lp))
__CPROVER_ensures((!T_OLD_UNSET(lp) && (__CPROVER_old(lp->termination_t) < msg_time || __CPROVER_old(lp->termination_t) == SIMTIME_MAX))
	==> lp->termination_t == __CPROVER_old(lp->termination_t))
/* a termination recorded at or after the rollback point was speculative: it is withdrawn */
__CPROVER_ensures((!T_OLD_UNSET(lp) && __CPROVER_old(lp->termination_t) >= msg_time && __CPROVER_old(lp->termination_t) != SIMTIME_MAX)
	==> T_UNSET(lp))
__CPROVER_ensures(T_WF(lp) && T_MAXT(lp))
;

#define T_GVT_MAY_VOTE(l, m, g) (((l) == 0 && (m) < (g)) || (g) >= global_config.termination_time)

void termination_on_gvt(simtime_t current_gvt)
__CPROVER_requires(current_gvt >= 0.0 && current_gvt <= SIMTIME_MAX)
__CPROVER_requires(global_config.termination_time == global_config.termination_time) /* not NaN */
__CPROVER_requires(max_t >= 0.0)
__CPROVER_requires(verif_bcast < 1000)
__CPROVER_assigns(thr_to_end, max_t, verif_bcast)
/* this thread gives its vote only when every LP of the thread terminated strictly below the GVT, or at the time limit */
__CPROVER_ensures(thr_to_end == __CPROVER_old(thr_to_end) || thr_to_end == __CPROVER_old(thr_to_end) - 1U)
__CPROVER_ensures((thr_to_end != __CPROVER_old(thr_to_end))
	== T_GVT_MAY_VOTE(__CPROVER_old(lps_to_end), __CPROVER_old(max_t), current_gvt))
__CPROVER_ensures(thr_to_end == __CPROVER_old(thr_to_end) ==> max_t == __CPROVER_old(max_t))
/* a vote is not repeated while the GVT is below the time limit */
__CPROVER_ensures(thr_to_end != __CPROVER_old(thr_to_end) ==> max_t == SIMTIME_MAX)
/* only the last voter of the node tells the other nodes */
__CPROVER_ensures(verif_bcast == __CPROVER_old(verif_bcast) +
	((thr_to_end != __CPROVER_old(thr_to_end) && __CPROVER_old(thr_to_end) == 1U) ? 1U : 0U))
;

void termination_on_ctrl_msg(void)
__CPROVER_assigns(nodes_to_end)
__CPROVER_ensures(nodes_to_end == __CPROVER_old(nodes_to_end) - 1)
;

void termination_global_init(void)
__CPROVER_assigns(nodes_to_end, thr_to_end)
__CPROVER_ensures(nodes_to_end == n_nodes && thr_to_end == global_config.n_threads)
;

#endif
