# C14 - every LP has exactly one owner; routing agrees with ownership. Bounded configuration box only.
LEVEL = "other"
F = "harness/c14_partition.c"
SAFETY_NOTE = "pointer-overflow check off: lp_global_init biases the lps pointer by -lid_node_first (out-of-object pointer arithmetic by the letter of the standard, see DESIGN.md)"
def mk(tier, lps, nodes, threads, to, solver=None, which=(0, 1, 2)):
    box = f"LPs <= {lps}, ranks <= {nodes}, threads <= {threads}; all rank ids, thread ids and LP ids"
    defs = (f"BOX_LPS={lps}", f"BOX_NODES={nodes}", f"BOX_THREADS={threads}")
    uw = lambda e: tuple([f"{e}.{k}:{lps + 2}" for k in range(4)] + [f"lp_global_init.{k}:4" for k in range(4)] +   # corrective loops of partition_start: at most 2 steps
                         [f"lp_init.{k}:4" for k in range(4)] + [f"lp_init.4:{lps + 2}"] + [f"lp_fini.0:{lps + 2}", f"occurrences.0:{lps + 2}"])
    common = dict(file=F, kind="bounded", bound=box, defs=defs, tiers=(tier,), timeout=to, mem_gb=16, solver=solver, safety=False,
                  flags=("--bounds-check", "--pointer-check", "--div-by-zero-check", "--signed-overflow-check", "--undefined-shift-check"))
    return [h for i, h in enumerate([
        H(name=f"C14.lp_global_init.lps{lps}", entry="h_global_init", funcs=["lp_global_init", "partition_start", "lid_to_nid"], canaries=2, unwindset=uw("h_global_init"),
          desc="rank range contiguous, inside the id space, and == {lp : lid_to_nid(lp) == nid}; thread count clipped to hosted LPs; no division by zero", **common),
        H(name=f"C14.lp_init.lps{lps}", entry="h_lp_init", funcs=["lp_init", "partition_start", "lid_to_rid"], unwindset=uw("h_lp_init"),
          desc="thread range contiguous, inside the rank range, non-empty, and == {lp : lid_to_rid(lp) == rid}; each owned LP initialised exactly once with its global id; RNG context from rs_malloc after allocator init", **common),
        H(name=f"C14.lp_fini.lps{lps}", entry="h_lp_fini", funcs=["lp_fini"], unwindset=uw("h_lp_fini"),
          desc="each owned LP finalised exactly once by its owner", **common),
    ]) if i in which]
HARNESSES = (mk("quick", 24, 4, 4, 1200, which=(0,)) + mk("quick", 9, 2, 5, 1200, which=(1, 2))
             + mk("thorough", 64, 8, 8, 14400, solver="kissat", which=(0,)) + mk("thorough", 16, 4, 4, 14400, which=(1, 2)))
EXPLANATION = ("The real lp_global_init / lp_init / lp_fini of lp.c (with the partition_start macro and the routing macros lid_to_nid / lid_to_rid) "
               "are executed symbolically for every configuration of a bounded box; for a ghost LP id: hosted by this rank iff routed to this rank; "
               "owned by this thread iff routed to this thread's queue; ranges contiguous, inside the id space, non-empty; each owned LP initialised "
               "and finalised exactly once (ghost counters in the per-LP initialiser stubs). Bounded stand-in only: 64-bit multiply/divide over "
               "symbolic operands is undecided beyond small widths on every installed back end. Users of the macros (msg_queue_insert, "
               "ScheduleNewEvent) are checked in C15/C06.")
ASSUMPTIONS = ["configuration box as stated per harness (NOT a proof for all configurations)", SAFETY_NOTE,
               "per-LP initialisers replaced by ghost-counting stubs"]
LEVEL_TEXT = "Bounded check (configuration box) of ownership ranges vs routing macros on the real lp.c; never counted as proved."
LEVEL_NOTE = "Trusted: CBMC; box bounds; stubs for the per-LP initialisers; pointer-overflow check disabled for the biased lps pointer."
TECHNIQUE = "CBMC bounded harness with ghost LP id on the real lp.c (partition_start, lid_to_nid, lid_to_rid)"
DESIGN_REF = "DESIGN.md §4 C14"
