/* C10 - the serial runtime implements the reference semantics: src/serial/serial.c with heap.h (real text).
 * Bounded: at most NE events in total (initial + scheduled by the model), NL LPs. */
#include "verif_harness.h"
#include <stdlib.h>
#include "serial/serial.c"

#ifndef NE
#define NE 5
#endif
#define NL 2
#define QCAP 16

struct simulation_configuration global_config;
struct lp_ctx *lps;
__thread struct lp_ctx *current_lp;
lp_id_t n_lps_node;
__thread rid_t rid;
nid_t nid, n_nodes;
#ifndef NDEBUG
bool lp_initialized;
#endif

/* ---- VERIF_STUB environment */
static struct lp_msg *M[NE + NL + 2];
static unsigned n_msgs, n_freed, freed_cnt[NE + NL + 2], disp_cnt[NE + NL + 2];
static unsigned disp_log[NE + NL + 2], n_disp;
static unsigned init_calls[NL], fini_calls[NL], other_calls[NL], fini_before_init;
static unsigned gvt_calls;
static unsigned sched_budget;
static bool root_changed;
static const struct lp_msg *cur_root;

static unsigned idx(const void *p)
{
	for(unsigned k = 0; k < NE + NL + 2; k++)
		if(k < n_msgs && (const void *)M[k] == p)
			return k;
	return NE + NL + 1;
}
static unsigned idx_pl(const void *pl)
{
	for(unsigned k = 0; k < NE + NL + 2; k++)
		if(k < n_msgs && (const void *)M[k]->pl == pl)
			return k;
	return NE + NL + 1;
}
struct lp_msg *msg_allocator_alloc(unsigned pls)
{
	struct lp_msg *m = malloc(sizeof(struct lp_msg));
	VASSUME(m != NULL);
	m->pl_size = pls;
	if(n_msgs < NE + NL + 1)
		M[n_msgs++] = m;
	return m;
}
void msg_allocator_free(struct lp_msg *m) { freed_cnt[idx(m)]++; n_freed++; }
void msg_allocator_init(void) {}
void msg_allocator_fini(void) {}
void stats_global_init(void) {}
void stats_global_fini(void) {}
void stats_init(void) {}
void stats_take(enum stats_thread_type s, uint_fast64_t c) { (void)s; (void)c; }
void stats_on_gvt(simtime_t t) { (void)t; gvt_calls++; }
void stats_dump(void) {}
void stats_global_time_take(enum stats_global_type t) { (void)t; }
void model_allocator_lp_init(struct mm_state *s) { (void)s; }
void model_allocator_lp_fini(struct mm_state *s) { (void)s; }
static struct rng_ctx rngs[NL];
void *rs_malloc(size_t n) { (void)n; return &rngs[(current_lp - lps) < NL ? (current_lp - lps) : 0]; }
void random_lib_lp_init(lp_id_t id, struct rng_ctx *c) { (void)id; (void)c; }
void vlogger(enum log_level l, char *f, unsigned n, const char *fmt, ...) { (void)l; (void)f; (void)n; (void)fmt; }
#ifndef VERIF_NATIVE
void *realloc(void *p, size_t n)
{
	(void)n;
	__CPROVER_assert(0, "C10.harness capacity suffices: the event heap never reallocates in this bounded scenario");
	return p;
}
unsigned long nondet_timer(void);
int gettimeofday(struct timeval *tv, void *tz) { (void)tz; tv->tv_sec = (long)(nondet_timer() % 1000); tv->tv_usec = 0; return 0; }
#endif

/* the model: an arbitrary valid model - each dispatch may schedule one event not before the current one */
simtime_t nondet_delta(void);
bool nondet_bool(void);
unsigned nondet_uint(void);
static bool pred_now[NL], ever_true[NL];
static void stub_dispatcher(lp_id_t me, simtime_t now, unsigned type, const void *content, unsigned size, void *st)
{
	(void)size; (void)st;
	if(type == LP_INIT) {
		if(me < NL) init_calls[me]++;
	} else if(type == LP_FINI) {
		if(me < NL) { fini_calls[me]++; if(!init_calls[me]) fini_before_init++; }
		return;
	} else if(me < NL) {
		other_calls[me]++;
	}
	unsigned k = idx_pl(content);
	disp_cnt[k]++;
	if(n_disp < NE + NL + 1)
		disp_log[n_disp++] = k;
	if(queue.count && heap_min(queue) != M[k])
		root_changed = true; /* the runtime dispatches the heap root and keeps it there during the call */
	if(sched_budget && nondet_bool()) {
		sched_budget--;
		simtime_t d = nondet_delta();
		VASSUME(d >= 0.0 && d <= 100.0);
		lp_id_t to = nondet_uint() % NL;
		unsigned nb = n_msgs;
		ScheduleNewEvent_serial(to, now + d, 5, NULL, 0);
		/* documented validity condition of a model (the debug build aborts otherwise): not before the current event */
		VASSUME(nb < NE + NL + 1 && !msg_is_before(M[nb], M[k]));
		if(queue.count && heap_min(queue) != M[k])
			root_changed = true;
	}
	if(me < NL)
		pred_now[me] = nondet_bool();
}
static bool stub_committed(lp_id_t me, const void *s)
{
	(void)s;
	bool r = me < NL ? pred_now[me] : false;
	if(r && me < NL)
		ever_true[me] = true;
	return r;
}

static bool before(const struct lp_msg *a, const struct lp_msg *b) { return msg_is_before(a, b); }
static bool heap_ok(void)
{
	for(unsigned i = 1; i < NE + 1; i++)
		if(i < heap_count(queue) && before(heap_items(queue)[i], heap_items(queue)[(i - 1) / 2]))
			return false;
	return true;
}
static unsigned in_heap(const struct lp_msg *m)
{
	unsigned c = 0;
	for(unsigned i = 0; i < NE + 1; i++)
		if(i < heap_count(queue) && heap_items(queue)[i] == m)
			c++;
	return c;
}

static void env_reset(unsigned n_lps)
{
	for(unsigned k = 0; k < NE + NL + 2; k++)
		freed_cnt[k] = disp_cnt[k] = 0;
	for(unsigned k = 0; k < NL; k++)
		init_calls[k] = fini_calls[k] = other_calls[k] = 0, pred_now[k] = false, ever_true[k] = false;
	n_msgs = n_freed = n_disp = gvt_calls = fini_before_init = 0;
	root_changed = false;
	global_config.dispatcher = stub_dispatcher;
	global_config.committed = stub_committed;
	global_config.lps = n_lps;
	global_config.serial = true;
	global_config.gvt_period = 1000;
}

/* an arbitrary well-formed event heap with n <= NE-1 events */
#define HEAP_SETUP(maxn)                                                                                               \
	VIN(unsigned, in_n);                                                                                           \
	VIN_ARR(simtime_t, in_t, NE + 1);                                                                              \
	VIN_ARR(uint32_t, in_type, NE + 1);                                                                            \
	VIN_ARR(uint32_t, in_dest, NE + 1);                                                                            \
	VASSUME(in_n <= (maxn));                                                                                       \
	env_reset(NL);                                                                                                 \
	static struct lp_ctx lp_store[NL];                                                                             \
	lps = lp_store;                                                                                                \
	queue.items = malloc(QCAP * sizeof(struct lp_msg *));                                                          \
	queue.capacity = QCAP;                                                                                         \
	queue.count = in_n;                                                                                            \
	VASSUME(queue.items != NULL);                                                                                  \
	for(unsigned k_ = 0; k_ < NE; k_++)                                                                            \
		if(k_ < in_n) {                                                                                        \
			VASSUME(in_t[k_] == in_t[k_] && in_t[k_] >= 0.0 && in_type[k_] < LP_INIT && in_dest[k_] < NL);  \
			struct lp_msg *m_ = msg_allocator_alloc(0);                                                    \
			m_->dest = in_dest[k_];                                                                        \
			m_->dest_t = in_t[k_];                                                                         \
			m_->m_type = in_type[k_];                                                                      \
			m_->raw_flags = 0;                                                                             \
			queue.items[k_] = m_;                                                                          \
		}                                                                                                      \
	VASSUME(heap_ok())

/* ScheduleNewEvent_serial = heap_insert: order kept, nothing lost, exactly the new event added with its fields */
void h_schedule_serial(void)
{
	HEAP_SETUP(NE - 1);
	VIN(unsigned, g);
	VIN(simtime_t, t);
	VIN(lp_id_t, to);
	VASSUME(g < in_n + 1 && t == t && t >= 0.0 && to < NL);
	unsigned before_n = n_msgs;
	ScheduleNewEvent_serial(to, t, 9, NULL, 0);
	VASSERT(n_msgs == before_n + 1 && heap_count(queue) == in_n + 1, "C10.schedule exactly one event added");
	struct lp_msg *nm = M[before_n];
	VASSERT(nm->dest == to && nm->dest_t == t && nm->m_type == 9 && nm->pl_size == 0 && nm->raw_flags == 0, "C10.schedule the queued event carries receiver, time, type and size");
	VASSERT(in_heap(M[g]) == 1, "C10.schedule every event (old and new) is in the event list exactly once");
	VASSERT(heap_ok(), "C10.schedule heap order preserved by insertion");
	VCANARY("h_schedule_serial reachable");
}

static struct lp_msg *w_extract(void) { return heap_extract(queue, msg_is_before); }
void h_extract_serial(void)
{
	HEAP_SETUP(NE);
	VIN(unsigned, g);
	VASSUME(in_n >= 1 && g < in_n);
	struct lp_msg *r = w_extract();
	VASSERT(heap_count(queue) == in_n - 1, "C10.extract one event removed");
	VASSERT(!before(M[g], r), "C10.extract the extracted event is a minimum of the happens-before order");
	VASSERT(in_heap(M[g]) == (M[g] == r ? 0U : 1U), "C10.extract all other events stay in the list exactly once");
	VASSERT(heap_ok(), "C10.extract heap order preserved by extraction");
	VCANARY("h_extract_serial reachable");
}

/* the run loop against an arbitrary valid model: each dispatch is a minimum of the pending set, each event is
 * dispatched at most once and released exactly once when dispatched-and-not-last, the root is stable during a dispatch */
void h_run(void)
{
	HEAP_SETUP(NE - 2);
	VIN(unsigned, budget);
	VIN(simtime_t, term_time);
	VASSUME(in_n >= 1 && budget <= 2 && term_time == term_time);
	sched_budget = budget;
	global_config.termination_time = term_time;
	for(unsigned k = 0; k < NL; k++)
		lps[k].termination_t = -1;
	unsigned initial = in_n;
	serial_simulation_run();
	VASSERT(!root_changed, "C10.run the current event stays the root of the event list while the model schedules new events");
	for(unsigned k = 0; k < NE + NL + 1; k++)
		if(k < n_msgs) {
			VASSERT(disp_cnt[k] <= 1, "C10.run no event is delivered twice");
			VASSERT(freed_cnt[k] <= disp_cnt[k], "C10.run only delivered events are released, once");
			VASSERT(disp_cnt[k] + in_heap(M[k]) >= 1, "C10.run no scheduled event is lost: delivered or still pending");
		}
	/* order: consecutive deliveries never go back in the happens-before order */
	for(unsigned k = 1; k < NE + NL + 1; k++)
		if(k < n_disp)
			VASSERT(!before(M[disp_log[k]], M[disp_log[k - 1]]), "C10.run deliveries follow the happens-before order (timestamp, then content tie-break)");
	/* everything still pending is not before the last delivered event */
	if(n_disp)
		for(unsigned k = 0; k < NE + NL + 1; k++)
			if(k < n_msgs && in_heap(M[k]) && !disp_cnt[k])
				VASSERT(!before(M[k], M[disp_log[n_disp - 1]]), "C10.run no pending event precedes a delivered one");
	(void)initial;
	/* stop condition: with events still pending and the time limit not reached, the run may stop only when the
	 * predicate of EVERY LP has held at some delivered event (including one with timestamp 0) */
	if(heap_count(queue) > 0 && n_disp > 0 && M[disp_log[n_disp - 1]]->dest_t < term_time)
		for(unsigned k = 0; k < NL; k++)
			VASSERT(ever_true[k], "C10.run the run stops before the time limit only when every LP's predicate has held");
	VCANARY("h_run reachable");
	VCOVER(n_disp >= 3, "h_run covers three deliveries");
}

/* init / fini: LP_INIT first for every LP, LP_FINI last for every LP, once each */
void h_init_fini(void)
{
	VIN(lp_id_t, n_lps);
	VASSUME(n_lps >= 1 && n_lps <= NL);
	env_reset((unsigned)n_lps);
	VIN(unsigned, budget);
	VASSUME(budget <= 2);
	sched_budget = budget; /* the model may schedule events while it handles LP_INIT */
	serial_simulation_init();
	for(unsigned k = 0; k < NL; k++)
		VASSERT(init_calls[k] == (k < n_lps ? 1U : 0U) && other_calls[k] == 0, "C10.init LP_INIT delivered exactly once to every LP before anything else");
	unsigned scheduled = budget - sched_budget;
	VASSERT(heap_count(queue) == scheduled, "C10.init the LP_INIT events are consumed and exactly the events scheduled during initialisation stay pending");
	for(unsigned k = 0; k < NE + NL + 1; k++)
		if(k < n_msgs) {
			bool is_init = M[k]->m_type == LP_INIT;
			VASSERT(in_heap(M[k]) == (is_init ? 0U : 1U), "C10.init every event scheduled at initialisation is pending exactly once; no LP_INIT event lingers");
			VASSERT(freed_cnt[k] == (is_init ? 1U : 0U), "C10.init each LP_INIT buffer is released once, no scheduled event is released");
		}
	VASSERT(heap_ok(), "C10.init the event list is a well-formed heap after initialisation");
	serial_simulation_fini();
	for(unsigned k = 0; k < NL; k++)
		VASSERT(fini_calls[k] == (k < n_lps ? 1U : 0U), "C10.fini LP_FINI delivered exactly once to every LP");
	VASSERT(fini_before_init == 0, "C10.fini no LP is finalised before it was initialised");
	VCANARY("h_init_fini reachable");
}
