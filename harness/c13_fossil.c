/* C13 - fossil collection never discards what a legal rollback can need: allocator side,
 * model_allocator_fossil_lp_collect() of src/mm/buddy/multi.c (real text), log table of ANY length:
 * the loops are closed by ghost-index loop invariants through the VERIF_LOOP hooks. */
#ifndef C13_BOUNDED
#define VERIF_LOOP_fossil_scan                                                                                         \
	__CPROVER_assigns(log_i, ref_i)                                                                                \
	__CPROVER_loop_invariant(log_i < self->logs.count && ref_i == self->logs.items[log_i].ref_i &&                 \
				 (!(verif_g > log_i && verif_g < self->logs.count) || self->logs.items[verif_g].ref_i > tgt_ref_i)) \
	__CPROVER_decreases(log_i)
#define VERIF_LOOP_fossil_rebase                                                                                       \
	__CPROVER_assigns(j, __CPROVER_object_whole(self->logs.items))                                                 \
	__CPROVER_loop_invariant(log_i <= j && j <= self->logs.count && self->logs.count == verif_old_count &&         \
				 self->logs.items[verif_g].c == verif_old_c_g &&                                       \
				 self->logs.items[verif_g].ref_i == (verif_g >= j ? verif_old_ref_g - ref_i : verif_old_ref_g)) \
	__CPROVER_decreases(j)
#define VERIF_LOOP_fossil_free                                                                                         \
	__CPROVER_assigns(j, verif_free_calls, verif_freed_g)                                                          \
	__CPROVER_loop_invariant(j <= log_i && verif_free_calls == log_i - j)                                          \
	__CPROVER_decreases(j)
#endif /* !C13_BOUNDED: with C13_BOUNDED the table loops are simply unwound (table of at most C13_MAXCAP slots) */

#include "verif_harness.h"
#include <stdlib.h>
#include <string.h>
#include "lp/lp.h"

array_count_t verif_g, verif_old_ref_g, verif_old_count;
struct mm_checkpoint *verif_old_c_g;
unsigned verif_free_calls, verif_freed_g;

#if !defined(VERIF_NATIVE) && defined(C13_BOUNDED)
/* bounded variant: exact byte-wise memmove (backward-safe since dst < src here is asserted), real free() of CBMC */
void *memmove(void *dst, const void *src, size_t n)
{
	__CPROVER_assert((const char *)dst <= (const char *)src, "C13.memmove moves towards lower addresses");
	for(size_t i = 0; i < n; i++)
		((unsigned char *)dst)[i] = ((const unsigned char *)src)[i];
	return dst;
}
/* VERIF_STUB free (bounded variant): ghost table of released pointers; a second release of the same pointer fails */
static void *verif_released[16];
void free(void *p)
{
	for(unsigned i = 0; i < 16; i++)
		if(i < verif_free_calls)
			__CPROVER_assert(verif_released[i] != p, "C13.free no checkpoint is released twice");
	__CPROVER_assert(verif_free_calls < 16, "C13.free ghost table large enough");
	verif_released[verif_free_calls++] = p;
}
static bool was_released(void *p)
{
	for(unsigned i = 0; i < 16; i++)
		if(i < verif_free_calls && verif_released[i] == p)
			return true;
	return false;
}
#endif
#if !defined(VERIF_NATIVE) && !defined(C13_BOUNDED)
/* VERIF_STUB free: ghost counting only (the bounded harness uses the real free to catch double releases) */
void free(void *p)
{
	verif_free_calls++;
	if(p == (void *)verif_old_c_g)
		verif_freed_g++;
}
/* VERIF_STUB memmove for array_truncate_first(): bounds of both ranges are checked, the destination is havocked and
 * the one log slot the ghost index designates is copied exactly (a claim about it is a claim about every slot) */
void *memmove(void *dst, const void *src, size_t n)
{
	__CPROVER_assert(__CPROVER_r_ok(src, n), "C13.memmove source range readable");
	__CPROVER_assert(__CPROVER_w_ok(dst, n), "C13.memmove destination range writable");
	const struct mm_log *s = src;
	struct mm_log *d = dst;
	size_t cnt = n / sizeof(struct mm_log);
	struct mm_log keep;
	size_t k = 0;
	bool have = false;
	extern struct mm_state S;
	if(n > 0 && (const struct mm_log *)&S.logs.items[verif_g] >= s && (size_t)(&S.logs.items[verif_g] - s) < cnt) {
		k = (size_t)(&S.logs.items[verif_g] - s);
		keep = s[k];
		have = true;
	}
	if(n > 0)
		__CPROVER_havoc_slice(dst, n);
	if(have)
		d[k] = keep;
	return dst;
}
#endif

#include "mm/buddy/multi.c"
#ifndef VERIF_NATIVE
#include "contracts/multi.h"
#else
void vlogger(enum log_level l, char *f, unsigned n, const char *fmt, ...) { (void)l; (void)f; (void)n; (void)fmt; }
#endif
#include "mm/buddy/buddy.c"
#include "mm/buddy/ckpt.c"
__thread struct lp_ctx *current_lp;

struct mm_state S;
#define NATIVE_SLOTS 8
#ifndef C13_MAXCAP
#define C13_MAXCAP 1024U /* size of the table object; the proof itself does not unwind over it */
#endif

void h_fossil_collect(void)
{
	VIN(array_count_t, cnt);
	VIN(array_count_t, cap);
	VIN(array_count_t, tgt);
	VIN(array_count_t, g);
	VIN_ARR(array_count_t, in_ref, NATIVE_SLOTS);
#ifdef C13_BOUNDED
	VASSUME(cnt >= 1 && cnt <= cap && cap == C13_MAXCAP); /* an object of fixed size; the number of slots in use is symbolic */
#else
	VASSUME(cnt >= 1 && cnt <= cap && cap <= C13_MAXCAP); /* table object of symbolic size */
#endif
#ifdef VERIF_NATIVE
	VASSUME(cnt <= NATIVE_SLOTS);
#endif
	S.logs.items = malloc((size_t)cap * sizeof(struct mm_log));
	VASSUME(S.logs.items != NULL);
	S.logs.count = cnt;
	S.logs.capacity = cap;
	for(unsigned k = 0; k < NATIVE_SLOTS; k++)
		if(k < cnt) {
			S.logs.items[k].ref_i = in_ref[k];
#if defined(VERIF_NATIVE) || defined(C13_BOUNDED)
			S.logs.items[k].c = malloc(16); /* distinct live checkpoints: a double or missing release is an error */
			VASSUME(S.logs.items[k].c != NULL);
#endif
		}
	VASSUME(S.logs.items[0].ref_i <= tgt);
	VASSUME(g < cnt);
	verif_g = g;
	verif_old_count = cnt;
	verif_old_ref_g = S.logs.items[g].ref_i;
	verif_old_c_g = S.logs.items[g].c;
	verif_free_calls = 0;
	verif_freed_g = 0;
	array_count_t r = model_allocator_fossil_lp_collect(&S, tgt);
	array_count_t m = cnt - S.logs.count;
#if defined(C13_BOUNDED) && !defined(VERIF_NATIVE)
	/* with the real free(): a dropped checkpoint is gone, a kept one is still allocated */
	VASSERT(g >= m || was_released(verif_old_c_g), "C13.collect every dropped checkpoint is released");
	VASSERT(g < m || !was_released(verif_old_c_g), "C13.collect no kept checkpoint is released");
	VASSERT(verif_free_calls == m, "C13.collect one release per dropped checkpoint");
#endif
	VASSERT(S.logs.count >= 1 && S.logs.count <= cnt, "C13.collect at least one checkpoint is kept");
	VASSERT(r <= tgt, "C13.collect the kept history starts at a checkpoint not after the committed frontier");
	VASSERT(g != m || r == verif_old_ref_g, "C13.collect the returned cut is the reference of the first kept checkpoint");
	VASSERT(g <= m || verif_old_ref_g > tgt, "C13.collect the kept checkpoint is the newest one not after the frontier");
	VASSERT(g < m || (S.logs.items[g - m].c == verif_old_c_g && S.logs.items[g - m].ref_i == verif_old_ref_g - r),
	    "C13.collect kept checkpoints keep their order and are rebased consistently with the shortened history");
	VCANARY("h_fossil_collect reachable");
	VCOVER(m >= 2 && S.logs.count >= 2, "h_fossil_collect covers dropping several and keeping several");
}

