/* C12 / C05 / C11 - the per-LP multi-arena layer: rs_malloc / rs_calloc / rs_free / rs_realloc,
 * buddy_find_by_address, model_allocator_checkpoint_take / _restore of src/mm/buddy/multi.c, together with the real
 * buddy.c and ckpt.c on a reduced arena geometry (substituted by the driver). Bounded: at most NA arenas, NLOG logs. */
#include "verif_harness.h"
#include <stdlib.h>
#include <string.h>
#include <errno.h>
#include "lp/lp.h"

#ifndef NA
#define NA 2
#endif
#define NLOGS 3

#ifndef VERIF_NATIVE
/* VERIF_STUB malloc/free: arenas come from one pool object, so that the address comparisons the allocator performs
 * between arenas stay inside one object (relational comparison of unrelated pointers is undefined by the letter of
 * the standard - see DESIGN.md); checkpoints and arrays come from separate fixed-size slots. Releases are logged. */
#include "mm/buddy/buddy.h"
static struct buddy_state arena_pool[NA + 1];
static unsigned arena_used;
static unsigned char ck_pool[NLOGS + 1][4096];
#ifdef C5_ALLOC
#include "mm/buddy/ckpt.h"
#include "mm/buddy/multi.h"
static unsigned char ck_exact[offsetof(struct mm_checkpoint, chkps) + sizeof(struct buddy_state *) + offsetof(struct buddy_checkpoint, base_mem) + C5_ALLOC];
#endif
static unsigned ck_used;
static void *released[8];
static unsigned n_released;
void *malloc(size_t n)
{
	if(n == sizeof(struct buddy_state)) {
		__CPROVER_assert(arena_used <= NA, "C12.harness arena pool large enough");
		return &arena_pool[arena_used++];
	}
#ifdef C5_ALLOC
	/* the checkpoint buffer is an object of EXACTLY the accounted size: any byte written past it is a bounds violation */
	if(n == sizeof(ck_exact))
		return ck_exact;
#endif
	__CPROVER_assert(n <= sizeof(ck_pool[0]) && ck_used <= NLOGS, "C12.harness checkpoint pool large enough");
	return ck_pool[ck_used++];
}
void free(void *p)
{
	for(unsigned i = 0; i < 8; i++)
		if(i < n_released)
			__CPROVER_assert(released[i] != p, "C11.free nothing is released twice");
	if(n_released < 8)
		released[n_released] = p;
	n_released++;
}
void *realloc(void *p, size_t n)
{
	(void)n;
	__CPROVER_assert(0, "C12.harness capacity suffices: the arrays never reallocate in this bounded scenario");
	return p;
}
void *memcpy(void *dst, const void *src, size_t n)
{
	for(size_t i = 0; i < n; i++)
		((unsigned char *)dst)[i] = ((const unsigned char *)src)[i];
	return dst;
}
void *memmove(void *dst, const void *src, size_t n)
{
	if((const char *)dst <= (const char *)src)
		for(size_t i = 0; i < n; i++)
			((unsigned char *)dst)[i] = ((const unsigned char *)src)[i];
	else
		for(size_t i = n; i > 0; i--)
			((unsigned char *)dst)[i - 1] = ((const unsigned char *)src)[i - 1];
	return dst;
}
void *memset(void *dst, int c, size_t n)
{
	for(size_t i = 0; i < n; i++)
		((unsigned char *)dst)[i] = (unsigned char)c;
	return dst;
}
#endif

#include "mm/buddy/multi.c"
#include "mm/buddy/buddy.c"
#include "mm/buddy/ckpt.c"

uint32_t verif_g, verif_n, verif_x, verif_alloc;
bool verif_g_live_before;
uint8_t verif_g_val_before, verif_root_before, verif_lon_before;
unsigned char verif_byte_before;
#include "contracts/buddy.h"
#include "contracts/ckpt.h"

__thread struct lp_ctx *current_lp;
void vlogger(enum log_level l, char *f, unsigned n, const char *fmt, ...) { (void)l; (void)f; (void)n; (void)fmt; }

static struct lp_ctx the_lp;
#define NLON (1U << (B_TOTAL_EXP - B_BLOCK_EXP + 1))
#define MM_BASE (offsetof(struct mm_checkpoint, chkps) + sizeof(struct buddy_state *))

/* INV_MM: the running size of a full checkpoint equals what model_allocator_checkpoint_take() will write */
static uint_fast32_t mm_expected_size(const struct mm_state *s)
{
	uint_fast32_t t = MM_BASE;
	for(unsigned i = 0; i < NA + 1; i++)
		if(i < array_count(s->buddies))
			t += CK_HDR + b_alloc_bytes(array_get_at(s->buddies, i)->longest);
	return t;
}
static bool mm_arenas_ok(const struct mm_state *s)
{
	for(unsigned i = 0; i < NA + 1; i++)
		if(i < array_count(s->buddies)) {
			if(!b_wf(array_get_at(s->buddies, i)))
				return false;
			if(i > 0 && !(array_get_at(s->buddies, i - 1) < array_get_at(s->buddies, i)))
				return false; /* sorted by address, hence distinct */
		}
	return true;
}
#define INV_MM(s) (mm_arenas_ok(s) && (s)->full_ckpt_size == mm_expected_size(s))

static struct buddy_state *arena_ptr[NA + 2];
static struct mm_log log_store[NLOGS + 2];

/* an arbitrary allocator state with n_ar <= NA arenas, each an arbitrary well-formed tree with arbitrary content */
#define MM_SETUP()                                                                                                     \
	VIN(unsigned, n_ar);                                                                                           \
	VIN_ARR(uint8_t, in_lon, (NA + 1) * NLON);                                                                     \
	VIN_ARR(unsigned char, in_mem, (NA + 1) * B_TOTAL);                                                            \
	VIN(unsigned, ga);                                                                                             \
	VIN(uint32_t, gn);                                                                                             \
	VIN(uint32_t, gx);                                                                                             \
	VASSUME(n_ar <= NA && gn < B_NODES && gx < B_TOTAL);                                                           \
	arena_used = n_ar;                                                                                             \
	ck_used = 0;                                                                                                   \
	n_released = 0;                                                                                                \
	current_lp = &the_lp;                                                                                          \
	struct mm_state *S = &the_lp.mm_state;                                                                         \
	S->buddies.items = arena_ptr;                                                                                  \
	S->buddies.capacity = NA + 2;                                                                                  \
	S->buddies.count = n_ar;                                                                                       \
	S->logs.items = log_store;                                                                                     \
	S->logs.capacity = NLOGS + 2;                                                                                  \
	S->logs.count = 0;                                                                                             \
	for(unsigned a_ = 0; a_ < NA; a_++)                                                                            \
		if(a_ < n_ar) {                                                                                        \
			arena_ptr[a_] = &arena_pool[a_];                                                               \
			for(unsigned k_ = 0; k_ < NLON; k_++)                                                          \
				arena_pool[a_].longest[k_] = in_lon[a_ * NLON + k_];                                   \
			for(unsigned k_ = 0; k_ < B_TOTAL; k_++)                                                       \
				arena_pool[a_].base_mem[k_] = in_mem[a_ * B_TOTAL + k_];                               \
		}                                                                                                      \
	VASSUME(mm_arenas_ok(S));                                                                                      \
	S->full_ckpt_size = mm_expected_size(S);                                                                       \
	errno = 0

#define GHOST_LIVE() (ga < n_ar && b_live(arena_pool[ga].longest, gn))
#define PTR_IN_ARENA(p, a) ((char *)(p) >= (char *)arena_pool[a].base_mem && (char *)(p) < (char *)arena_pool[a].base_mem + B_TOTAL)

void h_rs_malloc(void)
{
	MM_SETUP();
	VIN(size_t, req);
	bool g_live = GHOST_LIVE();
	unsigned char g_byte = ga < n_ar ? arena_pool[ga].base_mem[gx] : 0;
	uint_fast32_t size0 = S->full_ckpt_size;
	void *p = rs_malloc(req);
	if(req == 0) {
		VASSERT(p == NULL && S->full_ckpt_size == size0 && array_count(S->buddies) == n_ar, "C12.malloc a zero-size request fails cleanly");
	} else if(req > B_TOTAL) {
		VASSERT(p == NULL && errno == ENOMEM, "C12.malloc an over-size request fails with ENOMEM");
		VASSERT(S->full_ckpt_size == size0 && array_count(S->buddies) == n_ar, "C12.malloc an over-size request changes nothing");
	} else {
		VASSERT(p != NULL, "C12.malloc a request that fits one arena always succeeds (a new arena is added if needed)");
		unsigned a = NA + 1;
		for(unsigned k = 0; k < NA + 1; k++)
			if(k < array_count(S->buddies) && PTR_IN_ARENA(p, k))
				a = k;
		VASSERT(a <= NA, "C12.malloc the block lies inside allocator-owned memory");
		uint32_t off = (uint32_t)((char *)p - (char *)arena_pool[a].base_mem);
		uint32_t need = req < (1U << B_BLOCK_EXP) ? (1U << B_BLOCK_EXP) : (uint32_t)req;
		VASSERT(off + need <= B_TOTAL, "C12.malloc the block is at least as large as requested and inside its arena");
		VASSERT(!(g_live && ga == a) || off + need <= b_off(gn) || b_off(gn) + (1U << b_lev(gn)) <= off, "C12.malloc the block overlaps no live block");
		VASSERT(!g_live || b_live(arena_pool[ga].longest, gn), "C12.malloc live blocks stay live");
		VASSERT(INV_MM(S), "C11.malloc the checkpoint size accounting stays equal to what a checkpoint will write");
	}
	VASSERT(ga >= n_ar || arena_pool[ga].base_mem[gx] == g_byte, "C12.malloc no byte of arena memory is altered by an allocation");
	VCANARY("h_rs_malloc reachable");
	VCOVER(p != NULL && array_count(S->buddies) == n_ar + 1 && n_ar >= 1, "h_rs_malloc covers growth to a further arena");
}

void h_rs_free(void)
{
	MM_SETUP();
	VIN(unsigned, fa);
	VIN(uint32_t, fn);
	VASSUME(fa < n_ar && fn < B_NODES && b_live(arena_pool[fa].longest, fn));
	bool g_live = GHOST_LIVE();
	void *p = arena_pool[fa].base_mem + b_off(fn);
	rs_free(p);
	VASSERT(!b_live(arena_pool[fa].longest, fn), "C12.free the block is no longer live");
	VASSERT(!g_live || (ga == fa && gn == fn) || b_live(arena_pool[ga].longest, gn), "C12.free other live blocks are unaffected");
	VASSERT(INV_MM(S), "C11.free the checkpoint size accounting stays exact");
	VASSERT(arena_pool[fa].longest[0] >= b_lev(fn), "C12.free the space is reusable");
	VCANARY("h_rs_free reachable");
	VCOVER(n_ar == 2 && fa == 0, "h_rs_free covers lookup of the lower of two arenas");
}

void h_rs_realloc(void)
{
	MM_SETUP();
	VIN(unsigned, fa);
	VIN(uint32_t, fn);
	VIN(size_t, req);
	VIN(uint32_t, k);
	VASSUME(fa < n_ar && fn < B_NODES && b_live(arena_pool[fa].longest, fn));
	VASSUME(req >= 1 && req <= 4 * B_TOTAL);
	uint32_t old_sz = 1U << b_lev(fn);
	VASSUME(k < old_sz && k < req);
	unsigned char *p = arena_pool[fa].base_mem + b_off(fn);
	unsigned char keep = p[k];
	unsigned char *q = rs_realloc(p, req);
	if(req > B_TOTAL) {
		VASSERT(q == NULL, "C12.realloc an over-size request fails");
		VASSERT(b_live(arena_pool[fa].longest, fn) && p[k] == keep, "C12.realloc a failed reallocation leaves the old block live and untouched (fails cleanly)");
	} else {
		VASSERT(q != NULL, "C12.realloc a request that fits one arena succeeds");
		VASSERT(q[k] == keep, "C12.realloc the common prefix of the content is preserved");
		VASSERT(q == p || !b_live(arena_pool[fa].longest, fn), "C12.realloc a moved block releases the old one");
	}
	VASSERT(INV_MM(S), "C11.realloc the checkpoint size accounting stays exact");
	VCANARY("h_rs_realloc reachable");
	VCOVER(q != p, "h_rs_realloc covers a moving reallocation");
}

void h_rs_calloc(void)
{
	MM_SETUP();
	VIN(size_t, nmemb);
	VIN(size_t, size);
	VIN(uint32_t, k);
	/* element sizes are sampled (1, 2, 3, 8, 2^32, SIZE_MAX) because a symbolic 64-bit divisor is out of reach of the
	 * SAT back end; the element count is fully symbolic */
	VASSUME(size == 0 || size == 1 || size == 2 || size == 3 || size == 8 || size == ((size_t)1 << 32) || size == SIZE_MAX);
	unsigned char *p = rs_calloc(nmemb, size);
	bool overflow = size != 0 && nmemb > SIZE_MAX / size;
	if(overflow || nmemb * size > B_TOTAL || nmemb * size == 0)
		VASSERT(p == NULL, "C12.calloc zero-size, over-size and overflowing requests fail");
	else {
		VASSERT(p != NULL, "C12.calloc a request that fits one arena succeeds");
		VASSERT(k >= nmemb * size || p[k] == 0, "C12.calloc memory is zeroed");
		VASSERT(INV_MM(S), "C11.calloc the checkpoint size accounting stays exact");
	}
	VCANARY("h_rs_calloc reachable");
	VCOVER(overflow, "h_rs_calloc covers a multiplication overflow");
}

/* model_allocator_checkpoint_restore: which checkpoint is chosen (log scan), what is released, what the table becomes.
 * No arena here (the per-arena part is h_ckpt_take_restore): logs of <= NLOGS entries with arbitrary references. */
void h_restore_scan(void)
{
	VIN(unsigned, n_logs);
	VIN_ARR(array_count_t, in_ref, NLOGS);
	VIN_ARR(uint32_t, in_size, NLOGS);
	VIN(array_count_t, target);
	VIN(unsigned, g);
	VASSUME(n_logs >= 1 && n_logs <= NLOGS && g < n_logs);
	arena_used = 0;
	ck_used = 0;
	n_released = 0;
	current_lp = &the_lp;
	struct mm_state *S = &the_lp.mm_state;
	S->buddies.items = arena_ptr;
	S->buddies.capacity = NA + 2;
	S->buddies.count = 0;
	S->logs.items = log_store;
	S->logs.capacity = NLOGS + 2;
	S->logs.count = n_logs;
	struct mm_checkpoint *cks[NLOGS];
	for(unsigned k = 0; k < NLOGS; k++)
		if(k < n_logs) {
			cks[k] = malloc(64);
			cks[k]->ckpt_size = in_size[k];
			log_store[k].ref_i = in_ref[k];
			log_store[k].c = cks[k];
			VASSUME(k == 0 || in_ref[k - 1] <= in_ref[k]); /* references never decrease along the table */
		}
	VASSUME(in_ref[0] <= target); /* C13: a checkpoint not after the target exists */
	array_count_t r = model_allocator_checkpoint_restore(S, target);
	unsigned sel = 0;
	for(unsigned k = 0; k < NLOGS; k++)
		if(k < n_logs && in_ref[k] <= target)
			sel = k; /* the newest checkpoint not after the target */
	VASSERT(r == in_ref[sel] && r <= target, "C05.restore_scan the state is restored from the newest checkpoint not after the rollback point");
	VASSERT(array_count(S->logs) == sel + 1, "C05.restore_scan the log table is cut right after the checkpoint used");
	VASSERT(S->full_ckpt_size == in_size[sel], "C05.restore_scan the size accounting is taken from the checkpoint used");
	bool was_released = false;
	for(unsigned i = 0; i < 8; i++)
		if(i < n_released && released[i] == (void *)cks[g])
			was_released = true;
	VASSERT(was_released == (g > sel), "C05.restore_scan exactly the checkpoints taken after the rollback point are released (once each)");
	VASSERT(n_released == n_logs - 1 - sel, "C05.restore_scan nothing else is released");
	VCANARY("h_restore_scan reachable");
	VCOVER(n_logs == 3 && sel == 1 && in_ref[1] < target, "h_restore_scan covers a rollback point strictly between two checkpoints");
}

