# C07 - No premature termination. Loop-free module; every obligation holds for all inputs (proof).
LEVEL = "proof"
F = "harness/c07_termination.c"
FUNCS = ["termination_lp_init", "termination_on_msg_process", "termination_on_lp_rollback", "termination_on_gvt",
         "termination_on_ctrl_msg", "termination_global_init"]
STUBS_TXT = ["global_config.committed -> ghost boolean (any predicate answer)", "mpi_control_msg_broadcast -> ghost counter"]

def T(name, entry, enforce=None, replace=(), desc="", **kw):
    return H(name="C07." + name, file=F, entry=entry, enforce=enforce, replace=replace, funcs=[enforce] if enforce else list(replace),
             kind="proof", timeout=300, mem_gb=6, desc=desc, **kw)

HARNESSES = [
    T("sentinel", "h_sentinel", desc="the 'not terminated' value stored by the real termination_lp_init is not a legal timestamp", native=True),
    T("lp_init", "h_lp_init", enforce="termination_lp_init", desc="contract of termination_lp_init, all states"),
    T("on_msg_process", "h_on_msg_process", enforce="termination_on_msg_process", canaries=2,
      desc="contract T1 (delta form of lps_to_end == #unset; terminated at the event time for every legal time incl. 0)"),
    T("on_lp_rollback", "h_on_lp_rollback", enforce="termination_on_lp_rollback", canaries=2,
      desc="contract T2 (speculative terminations at/after the rollback point withdrawn, earlier ones kept)"),
    T("on_gvt", "h_on_gvt", enforce="termination_on_gvt", desc="contract T4/T5 (vote iff all LPs terminated strictly below GVT or time limit; last voter broadcasts)"),
    T("on_ctrl_msg", "h_on_ctrl_msg", enforce="termination_on_ctrl_msg", desc="one control message retires one node"),
    T("global_init", "h_global_init", enforce="termination_global_init", desc="vote counters start at n_threads / n_nodes"),
    T("thread_invariant", "h_thread_invariant", replace=("termination_on_msg_process", "termination_on_lp_rollback"), native=False,
      desc="composition over contracts only: INV (lps_to_end == #unset, max_t dominates) preserved by any operation on any of 2 LPs"),
    T("thread_invariant_init", "h_thread_invariant_init", replace=("termination_lp_init",), native=False,
      desc="composition over contracts only: INV established by lp_init"),
    T("vote_sound", "h_vote_sound", replace=("termination_on_gvt",), native=False,
      desc="composition over contracts only: INV and a vote imply every LP terminated on a committed state"),
]

EXPLANATION = ("Every function of src/gvt/termination.c is put under a CBMC function contract (contracts/termination.h) and the real, "
               "#included text is checked against it with goto-instrument --dfcc --enforce-contract, for all module states, all "
               "predicate answers and all legal timestamps (0 <= t < DBL_MAX, including 0). The module is loop-free, so the "
               "result is unbounded. Three composition harnesses use ONLY the contracts (callees replaced) to show that the "
               "per-thread invariant lps_to_end == #unset-LPs /\\ max_t dominates is established, preserved, and makes a vote sound. "
               "Not decided here: composition of the votes of several threads/nodes under concurrency, and that process.c calls these "
               "functions at the right places (the call sites are obligations of the C06 harness family).")
ASSUMPTIONS = ["two LPs per thread in the composition harnesses stand for 'the touched LP' and 'any other LP' (the contracts' frame: only lp->termination_t of the argument is assigned)",
               "legal event timestamps are 0 <= t < SIMTIME_MAX and not NaN"] + STUBS_TXT

LEVEL_TEXT = ("Deductive proof, unbounded: each function of the loop-free termination module is checked against its CBMC function "
              "contract for all states, predicate answers and legal timestamps; contract-only composition harnesses carry the "
              "per-thread counting invariant to the soundness of a thread's vote. Cross-thread/node vote composition is not decided.")
LEVEL_NOTE = ("Trusted: CBMC 6.11 + dfcc instrumentation; model predicate and MPI broadcast as ghost stubs; callers (process.c, "
              "parallel.c) call the functions at the documented points with legal timestamps; thread interleavings not modelled.")
TECHNIQUE = "CBMC code contracts (goto-instrument --dfcc --enforce-contract / --replace-call-with-contract) on the real termination.c"
DESIGN_REF = "DESIGN.md §4 C07"

# ---- call sites in process.c: process_msg reports every processed event and every rollback to the termination module
import importlib.util as _ilu, os as _os
_sp = _ilu.spec_from_file_location("spec_C06_for_C07", _os.path.join(_os.path.dirname(__file__), "C06.py"))
_m = _ilu.module_from_spec(_sp); _m.H = H; _sp.loader.exec_module(_m)
HARNESSES = HARNESSES + [
    _m.P(f"C07.process_msg_calls.word{w}", "h_process_msg", "process_msg calls termination_on_msg_process exactly once per processed (not cancelled) event with its timestamp, and termination_on_lp_rollback exactly once per rollback with the time of the straggler / cancelled event (bounded history; do_rollback by contract)",
         4, ("quick", "thorough"), canaries=1 if w == 1 else 2, funcs=["process_msg"], replace=("do_rollback",), defs_extra=("PM_MODULAR", f"PM_CASE={w}"))
    for w in (0, 1, 3)]
for _h in HARNESSES:
    if _h["name"].startswith("C07.process_msg_calls"):
        _h["kind"] = "bounded"
