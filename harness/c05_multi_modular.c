/* C05 / C11 - multi-arena checkpoint take / restore of src/mm/buddy/multi.c (real text), MODULAR: the per-arena
 * functions of ckpt.c / buddy.c are replaced by executable stubs that implement exactly their contracts
 * (contracts/ckpt.h, contracts/buddy.h - discharged in C05.ckpt_* and C12.buddy_*):
 *   checkpoint_full_take(self, ret): writes [ret, ret + CK_HDR + alloc(self)) only, sets ret->orig = self, returns the end;
 *   checkpoint_full_restore(self, ckp): orig mismatch -> NULL, nothing touched; else the arena becomes the checkpointed
 *                                       one (ghost: alloc(self) = alloc stored in ckp) and the end of the record is returned;
 *   buddy_init(self): everything free (alloc(self) = 0).
 * The abstract state of an arena is its number of live bytes (ghost). Arenas: up to NA, logs: up to NLOGS. */
#include "verif_harness.h"
#include <stdlib.h>
#include <string.h>
#include "lp/lp.h"
#include "mm/buddy/buddy.h"
#include "mm/buddy/ckpt.h"

#ifndef NA
#define NA 3
#endif
#define NLOGS 3
#define CK_HDR (offsetof(struct buddy_checkpoint, base_mem))
#define MM_BASE (offsetof(struct mm_checkpoint, chkps) + sizeof(struct buddy_state *))

static struct buddy_state arena_pool[NA + 1];
static uint32_t g_alloc[NA + 1];      /* ghost: live bytes of each arena */
static unsigned g_restored[NA + 1], g_inited[NA + 1], g_taken[NA + 1];
static unsigned order_bad;
static unsigned aidx(const struct buddy_state *b)
{
	for(unsigned i = 0; i < NA + 1; i++)
		if(b == &arena_pool[i])
			return i;
	order_bad++;
	return NA;
}
/* VERIF_STUB checkpoint_full_take: ASSUMED contract (proved as C05.ckpt_take) */
struct buddy_checkpoint *checkpoint_full_take(const struct buddy_state *self, struct buddy_checkpoint *ret)
{
	unsigned a = aidx(self);
	size_t sz = CK_HDR + g_alloc[a];
#ifndef VERIF_NATIVE
	__CPROVER_assert(__CPROVER_w_ok(ret, sz), "C11.take the record of an arena fits what is left of the checkpoint buffer");
#endif
	ret->orig = self;
	/* the stored number of live bytes stands for the stored tree */
	memcpy(ret->longest, &g_alloc[a], sizeof(uint32_t));
	g_taken[a]++;
	return (struct buddy_checkpoint *)((char *)ret + sz);
}
/* VERIF_STUB checkpoint_full_restore: ASSUMED contract (proved as C05.ckpt_restore) */
const struct buddy_checkpoint *checkpoint_full_restore(struct buddy_state *self, const struct buddy_checkpoint *ckp)
{
	if(ckp->orig != self)
		return NULL;
	unsigned a = aidx(self);
	uint32_t al;
	memcpy(&al, ckp->longest, sizeof(uint32_t));
	g_alloc[a] = al;
	g_restored[a]++;
	return (const struct buddy_checkpoint *)((const char *)ckp + CK_HDR + al);
}
/* VERIF_STUB buddy_init: ASSUMED contract (proved as C12.buddy_init) */
void buddy_init(struct buddy_state *self)
{
	unsigned a = aidx(self);
	g_alloc[a] = 0;
	g_inited[a]++;
}
void *buddy_malloc(struct buddy_state *s, uint_fast8_t e) { (void)s; (void)e; return NULL; }
uint_fast32_t buddy_free(struct buddy_state *s, void *p) { (void)s; (void)p; return 0; }
struct buddy_realloc_res buddy_best_effort_realloc(struct buddy_state *s, void *p, size_t r) { (void)s; (void)p; (void)r; struct buddy_realloc_res x = {0}; return x; }
void buddy_dirty_mark(struct buddy_state *s, const void *p, size_t n) { (void)s; (void)p; (void)n; }
void vlogger(enum log_level l, char *f, unsigned n, const char *fmt, ...) { (void)l; (void)f; (void)n; (void)fmt; }

#ifndef VERIF_NATIVE
/* VERIF_STUB malloc: an object of exactly the requested size where the scenario checks the sizing (use_pool == false),
 * a fixed-size slot otherwise (objects of symbolic size are expensive for the SAT encoding) */
static bool use_pool;
static unsigned char ck_pool[NLOGS + 1][512 + (NA + 1) * (sizeof(struct buddy_checkpoint) + (1U << B_TOTAL_EXP))];
static unsigned ck_used;
void *malloc(size_t n)
{
	if(!use_pool)
		return __CPROVER_allocate(n, 0);
	__CPROVER_assert(n <= sizeof(ck_pool[0]) && ck_used <= NLOGS, "C05.harness checkpoint pool large enough");
	return ck_pool[ck_used++];
}
static void *released[8];
static unsigned n_released;
void free(void *p)
{
	for(unsigned i = 0; i < 8; i++)
		if(i < n_released)
			__CPROVER_assert(released[i] != p, "C11.free no checkpoint is released twice");
	if(n_released < 8)
		released[n_released] = p;
	n_released++;
}
void *realloc(void *p, size_t n)
{
	(void)n;
	__CPROVER_assert(0, "C05.harness capacity suffices: the arrays never reallocate in this bounded scenario");
	return p;
}
void *memmove(void *dst, const void *src, size_t n)
{
	__CPROVER_assert((const char *)dst <= (const char *)src, "C05.memmove moves towards lower addresses (array_remove_at)");
	for(size_t i = 0; i < n; i++)
		((unsigned char *)dst)[i] = ((const unsigned char *)src)[i];
	return dst;
}
#endif

#include "mm/buddy/multi.c"
__thread struct lp_ctx *current_lp;
static struct lp_ctx the_lp;
static struct buddy_state *arena_ptr[NA + 2];
static struct mm_log log_store[NLOGS + 2];

static uint_fast32_t expected_size(const struct mm_state *s)
{
	uint_fast32_t t = MM_BASE;
	for(unsigned i = 0; i < NA + 1; i++)
		if(i < array_count(s->buddies))
			t += CK_HDR + g_alloc[aidx(array_get_at(s->buddies, i))];
	return t;
}

#define MODULAR_SETUP()                                                                                                \
	VIN(unsigned, n_ar);                                                                                           \
	VIN_ARR(uint32_t, in_alloc, NA + 1);                                                                           \
	VASSUME(n_ar <= NA);                                                                                           \
	current_lp = &the_lp;                                                                                          \
	struct mm_state *S = &the_lp.mm_state;                                                                         \
	S->buddies.items = arena_ptr;                                                                                  \
	S->buddies.capacity = NA + 2;                                                                                  \
	S->buddies.count = n_ar;                                                                                       \
	S->logs.items = log_store;                                                                                     \
	S->logs.capacity = NLOGS + 2;                                                                                  \
	S->logs.count = 0;                                                                                             \
	order_bad = 0;                                                                                                 \
	for(unsigned a_ = 0; a_ < NA + 1; a_++) {                                                                      \
		g_restored[a_] = g_inited[a_] = g_taken[a_] = 0;                                                       \
		VASSUME(in_alloc[a_] <= (1U << B_TOTAL_EXP));                                                          \
		g_alloc[a_] = in_alloc[a_];                                                                            \
		if(a_ < n_ar)                                                                                          \
			arena_ptr[a_] = &arena_pool[a_];                                                               \
	}                                                                                                              \
	S->full_ckpt_size = expected_size(S) /* INV_MM */

/* take: the buffer requested has exactly the accounted size and every arena record fits (the stub checks w_ok) */
void h_take_modular(void)
{
	MODULAR_SETUP();
	VIN(array_count_t, ref);
	VIN(unsigned, g);
	VASSUME(g < NA);
	uint_fast32_t size0 = S->full_ckpt_size;
#ifndef VERIF_NATIVE
	use_pool = false;
#endif
	model_allocator_checkpoint_take(S, ref);
	VASSERT(array_count(S->logs) == 1 && S->logs.items[0].ref_i == ref && S->logs.items[0].c->ckpt_size == size0, "C05.take the log gains exactly (ref_i, checkpoint) with the accounted size");
	VASSERT(g_taken[g] == (g < n_ar ? 1U : 0U), "C05.take every arena of the LP is saved exactly once");
	VASSERT(S->full_ckpt_size == size0 && order_bad == 0, "C05.take the allocator state is not modified by a checkpoint");
	VCANARY("h_take_modular reachable");
	VCOVER(n_ar == 3, "h_take_modular covers three arenas");
}

/* take then restore with arenas created in between: records go back to their own arenas, new arenas are
 * re-initialised and their header is accounted for (INV_MM again) */
void h_take_restore_modular(void)
{
	MODULAR_SETUP();
	VIN(unsigned, n_new);
	VIN_ARR(uint32_t, junk_alloc, NA + 1);
	VIN(unsigned, g);
	VASSUME(n_new <= NA && n_ar + n_new <= NA && g < NA);
	uint32_t saved = g_alloc[g];
#ifndef VERIF_NATIVE
	use_pool = true;
	ck_used = 0;
#endif
	model_allocator_checkpoint_take(S, 5);
	/* undone events: allocate / free in the existing arenas and create n_new further arenas */
	for(unsigned a = 0; a < NA; a++) {
		VASSUME(junk_alloc[a] <= (1U << B_TOTAL_EXP));
		g_alloc[a] = junk_alloc[a];
	}
	for(unsigned k = 0; k < NA; k++)
		if(k < n_new) {
			arena_ptr[n_ar + k] = &arena_pool[n_ar + k];
			S->buddies.count = n_ar + k + 1;
		}
	S->full_ckpt_size = expected_size(S); /* INV_MM maintained by rs_malloc / rs_free (C12.rs_*) */
#ifndef VERIF_NATIVE
	n_released = 0;
#endif
	array_count_t r = model_allocator_checkpoint_restore(S, 9);
	VASSERT(r == 5 && array_count(S->logs) == 1, "C05.restore the checkpoint is used and kept");
	if(g < n_ar) {
		VASSERT(g_restored[g] == 1 && g_inited[g] == 0 && g_alloc[g] == saved, "C05.restore every arena that existed at the checkpoint gets its OWN record back");
	} else if(g < n_ar + n_new) {
		bool freed_g = false;
#ifndef VERIF_NATIVE
		for(unsigned i = 0; i < 8; i++)
			if(i < n_released && released[i] == (void *)&arena_pool[g])
				freed_g = true;
#else
		freed_g = true;
#endif
		VASSERT(g_restored[g] == 0 && freed_g, "C05.restore an arena created after the checkpoint is dropped: allocations of undone events are gone");
	}
	VASSERT(array_count(S->buddies) == n_ar, "C05.restore the arena list is again the one of the checkpoint, so re-executed allocations are served exactly as the first time");
	for(unsigned a = 0; a < NA; a++)
		if(a < n_ar)
			VASSERT(array_get_at(S->buddies, a) == &arena_pool[a], "C05.restore the surviving arenas keep their order");
	VASSERT(S->full_ckpt_size == expected_size(S), "C05.restore the size accounting is exact again (else the NEXT checkpoint overflows its buffer)");
	VASSERT(order_bad == 0, "C05.restore only the LP's own arenas are touched");
	VCANARY("h_take_restore_modular reachable");
	VCOVER(n_ar == 2 && n_new == 1, "h_take_restore_modular covers two old arenas and one created after the checkpoint");
}

/* model_allocator_lp_fini: every checkpoint of the log table and every arena is released exactly once (C11) */
void h_lp_fini_modular(void)
{
	MODULAR_SETUP();
	VIN(unsigned, n_logs);
	VIN(unsigned, g);
	VASSUME(n_logs <= NLOGS && g < NLOGS + NA);
#ifndef VERIF_NATIVE
	use_pool = true;
	ck_used = 0;
	n_released = 0;
	for(unsigned k = 0; k < NLOGS; k++)
		if(k < n_logs) {
			log_store[k].ref_i = k;
			log_store[k].c = (struct mm_checkpoint *)ck_pool[k];
		}
	S->logs.count = n_logs;
	model_allocator_lp_fini(S);
	void *what = g < NLOGS ? (void *)ck_pool[g] : (void *)&arena_pool[g - NLOGS];
	bool expected = g < NLOGS ? g < n_logs : (g - NLOGS) < n_ar;
	bool was = false;
	for(unsigned i = 0; i < 8; i++)
		if(i < n_released && released[i] == what)
			was = true;
	VASSERT(was == expected, "C11.lp_fini every checkpoint and every arena of the LP is released (exactly once: a second release fails the free stub)");
	VASSERT(n_released == n_logs + n_ar + 2, "C11.lp_fini nothing else but the two tables is released");
#endif
	VCANARY("h_lp_fini_modular reachable");
}
