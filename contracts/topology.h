/* contracts/topology.h - contracts of the topology library (src/lib/topology/topology.c; property C19).
 * Included after the real topology.c and after contracts/random.h.
 *
 * Abstract view: ts_fixed(t, from, d) = the region reached from `from` through the FIXED direction d, or
 * INVALID_DIRECTION ("odd-r" hexagons, plain and wrapping squares, rings). Every query of the library is specified
 * against this one function, so GetReceiver, IsNeighbor and CountDirections are forced to agree with each other:
 *   GetReceiver(from, d fixed) == ts_fixed;  IsNeighbor(from,to) <=> some fixed d reaches `to`;
 *   CountDirections == #{fixed d with a receiver};  DIRECTION_RANDOM returns some ts-neighbour whenever one exists.
 * The frame clause "assigns only the calling LP's generator" is the rollback-/thread-safety part of the property. */
#ifndef VERIF_CONTRACT_TOPOLOGY_H
#define VERIF_CONTRACT_TOPOLOGY_H

#define T_IS_GRID(t) ((t)->geometry == TOPOLOGY_HEXAGON || (t)->geometry == TOPOLOGY_SQUARE || (t)->geometry == TOPOLOGY_TORUS)
#define T_IS_RING(t) ((t)->geometry == TOPOLOGY_RING || (t)->geometry == TOPOLOGY_BIDRING)

static inline lp_id_t ts_fixed(const struct topology *t, lp_id_t from, unsigned d)
{
	if(T_IS_GRID(t)) {
		uint32_t w = t->width, h = t->height;
		uint32_t y = (uint32_t)(from / w);
		uint32_t x = (uint32_t)(from - (lp_id_t)y * w);
		uint32_t odd = y & 1U;
		if(t->geometry == TOPOLOGY_HEXAGON) {
			switch(d) {
				case DIRECTION_E: x += 1; break;
				case DIRECTION_W: x -= 1; break;
				case DIRECTION_NW: x += odd - 1; y -= 1; break;
				case DIRECTION_NE: x += odd; y -= 1; break;
				case DIRECTION_SW: x += odd - 1; y += 1; break;
				case DIRECTION_SE: x += odd; y += 1; break;
				default: return INVALID_DIRECTION;
			}
			return (x < w && y < h) ? (lp_id_t)(y * w + x) : INVALID_DIRECTION;
		}
		if(t->geometry == TOPOLOGY_SQUARE) {
			switch(d) {
				case DIRECTION_N: y -= 1; break;
				case DIRECTION_S: y += 1; break;
				case DIRECTION_E: x += 1; break;
				case DIRECTION_W: x -= 1; break;
				default: return INVALID_DIRECTION;
			}
			return (x < w && y < h) ? (lp_id_t)(y * w + x) : INVALID_DIRECTION;
		}
		switch(d) { /* torus */
			case DIRECTION_N: y = (y + h - 1) % h; break;
			case DIRECTION_S: y = (y + 1) % h; break;
			case DIRECTION_E: x = (x + 1) % w; break;
			case DIRECTION_W: x = (x + w - 1) % w; break;
			default: return INVALID_DIRECTION;
		}
		return (lp_id_t)(y * w + x);
	}
	if(t->geometry == TOPOLOGY_RING)
		return d == DIRECTION_E ? (from + 1) % t->regions : INVALID_DIRECTION;
	if(t->geometry == TOPOLOGY_BIDRING)
		return d == DIRECTION_E ? (from + 1) % t->regions
		     : d == DIRECTION_W ? (from + t->regions - 1) % t->regions : INVALID_DIRECTION;
	return INVALID_DIRECTION;
}
#define TS_VALID(t, from, d) (ts_fixed((t), (from), (d)) != INVALID_DIRECTION)
static inline unsigned ts_count(const struct topology *t, lp_id_t from)
{
	return TS_VALID(t, from, DIRECTION_E) + TS_VALID(t, from, DIRECTION_W) + TS_VALID(t, from, DIRECTION_N) +
	       TS_VALID(t, from, DIRECTION_S) + TS_VALID(t, from, DIRECTION_NE) + TS_VALID(t, from, DIRECTION_SW) +
	       TS_VALID(t, from, DIRECTION_NW) + TS_VALID(t, from, DIRECTION_SE);
}
/* `to` is a neighbour of `from` */
static inline bool ts_neighbor(const struct topology *t, lp_id_t from, lp_id_t to)
{
	if(to >= t->regions)
		return false;
	if(T_IS_GRID(t) || T_IS_RING(t))
		return ts_fixed(t, from, DIRECTION_E) == to || ts_fixed(t, from, DIRECTION_W) == to ||
		       ts_fixed(t, from, DIRECTION_N) == to || ts_fixed(t, from, DIRECTION_S) == to ||
		       ts_fixed(t, from, DIRECTION_NE) == to || ts_fixed(t, from, DIRECTION_SW) == to ||
		       ts_fixed(t, from, DIRECTION_NW) == to || ts_fixed(t, from, DIRECTION_SE) == to;
	if(t->geometry == TOPOLOGY_STAR)
		return (from == 0) != (to == 0);
	if(t->geometry == TOPOLOGY_FCMESH)
		return true; /* the library counts a region as adjacent to every region of a full mesh */
	return false;
}
/* does `from` have a neighbour at all? */
static inline bool ts_has_neighbour(const struct topology *t, lp_id_t from)
{
	if(T_IS_GRID(t) || T_IS_RING(t))
		return ts_count(t, from) > 0;
	return t->regions > 1;
}

/* shape invariant of a topology object as vInitializeTopology() builds it (graph adjacency aside) */
#define T_WF(t)                                                                                                        \
	(__CPROVER_rw_ok((t), sizeof(struct topology)) && (t)->regions >= 1 && (t)->regions <= INT_MAX &&                \
	    (t)->geometry >= TOPOLOGY_HEXAGON && (t)->geometry <= TOPOLOGY_FCMESH &&                                   \
	    (!T_IS_GRID(t) || ((t)->width >= 1 && (t)->height >= 1 && (t)->regions == (lp_id_t)(t)->width * (t)->height)))

/* the direction tables handed to get_random_neighbor are shared by all LPs and threads and are never written */
#define T_TABLES_OK()                                                                                                  \
	(directions_hexagon[0] == DIRECTION_E && directions_hexagon[1] == DIRECTION_W && directions_hexagon[2] == DIRECTION_NE && \
	    directions_hexagon[3] == DIRECTION_NW && directions_hexagon[4] == DIRECTION_SE && directions_hexagon[5] == DIRECTION_SW && \
	    directions_square_torus[0] == DIRECTION_E && directions_square_torus[1] == DIRECTION_W &&                  \
	    directions_square_torus[2] == DIRECTION_N && directions_square_torus[3] == DIRECTION_S)

#define T_RESULT_OK(t, from, r) ((r) == INVALID_DIRECTION || ((r) < (t)->regions && ts_neighbor((t), (from), (r))))

/* ---- per-geometry helpers (static): a fixed direction is the pure function ts_fixed; DIRECTION_RANDOM may advance
 *      the caller's generator and nothing else */
#define GRID_HELPER_CONTRACT(fn, geom)                                                                                 \
	static lp_id_t fn(lp_id_t from, struct topology *topology, enum topology_direction direction)                  \
	__CPROVER_requires(RNG_VALID())                                                                                \
	__CPROVER_requires(T_WF(topology) && topology->geometry == (geom))                                             \
	__CPROVER_requires(from < topology->regions)                                                                   \
	__CPROVER_requires(T_TABLES_OK())                                                                              \
	__CPROVER_assigns(RNG_FRAME)                                                                                   \
	__CPROVER_ensures(direction != DIRECTION_RANDOM ==> __CPROVER_return_value == ts_fixed(topology, from, direction)) \
	__CPROVER_ensures(T_RESULT_OK(topology, from, __CPROVER_return_value))                                         \
	__CPROVER_ensures((direction == DIRECTION_RANDOM && ts_has_neighbour(topology, from)) ==> __CPROVER_return_value != INVALID_DIRECTION) \
	;
GRID_HELPER_CONTRACT(get_neighbor_hexagon, TOPOLOGY_HEXAGON)
GRID_HELPER_CONTRACT(get_neighbor_square, TOPOLOGY_SQUARE)
GRID_HELPER_CONTRACT(get_neighbor_torus, TOPOLOGY_TORUS)
GRID_HELPER_CONTRACT(get_neighbor_ring, TOPOLOGY_RING)
GRID_HELPER_CONTRACT(get_neighbor_bidring, TOPOLOGY_BIDRING)

#define OTHER_HELPER_CONTRACT(fn, geom)                                                                                \
	static lp_id_t fn(lp_id_t from, struct topology *topology, enum topology_direction direction)                  \
	__CPROVER_requires(RNG_VALID())                                                                                \
	__CPROVER_requires(T_WF(topology) && topology->geometry == (geom))                                             \
	__CPROVER_requires(from < topology->regions)                                                                   \
	__CPROVER_assigns(RNG_FRAME)                                                                                   \
	__CPROVER_ensures(direction != DIRECTION_RANDOM ==> __CPROVER_return_value == INVALID_DIRECTION)               \
	__CPROVER_ensures(T_RESULT_OK(topology, from, __CPROVER_return_value))                                         \
	__CPROVER_ensures(__CPROVER_return_value != from)                                                              \
	__CPROVER_ensures((direction == DIRECTION_RANDOM && topology->regions > 1) ==> __CPROVER_return_value != INVALID_DIRECTION) \
	;
OTHER_HELPER_CONTRACT(get_neighbor_star, TOPOLOGY_STAR)
OTHER_HELPER_CONTRACT(get_neighbor_mesh, TOPOLOGY_FCMESH)

/* ---- the random pick among a table of fixed directions (hexagon, square, torus) */
#define T_DIR_OK(k) ((k) >= n_directions || directions[k] < DIRECTION_RANDOM)
#define T_DIR_VALID(k) ((k) < n_directions && TS_VALID(topology, from, directions[k]))
static lp_id_t get_random_neighbor(lp_id_t from, struct topology *topology, size_t n_directions,
    enum topology_direction directions[n_directions])
__CPROVER_requires(RNG_VALID())
__CPROVER_requires(T_WF(topology) && T_IS_GRID(topology))
__CPROVER_requires(from < topology->regions)
__CPROVER_requires(T_TABLES_OK())
__CPROVER_requires(n_directions >= 1 && n_directions <= DIRECTION_RANDOM && __CPROVER_r_ok(directions, n_directions * sizeof(*directions)))
__CPROVER_requires(T_DIR_OK(0) && T_DIR_OK(1) && T_DIR_OK(2) && T_DIR_OK(3) && T_DIR_OK(4) && T_DIR_OK(5) && T_DIR_OK(6) && T_DIR_OK(7))
/* the table belongs to every LP and thread: it must not be written */
__CPROVER_assigns(RNG_FRAME)
__CPROVER_ensures(T_RESULT_OK(topology, from, __CPROVER_return_value))
__CPROVER_ensures((T_DIR_VALID(0) || T_DIR_VALID(1) || T_DIR_VALID(2) || T_DIR_VALID(3) || T_DIR_VALID(4) || T_DIR_VALID(5) ||
		   T_DIR_VALID(6) || T_DIR_VALID(7)) ==> __CPROVER_return_value != INVALID_DIRECTION)
;

/* ---- public queries */
lp_id_t GetReceiver(lp_id_t from, struct topology *topology, enum topology_direction direction)
__CPROVER_requires(RNG_VALID())
__CPROVER_requires(T_WF(topology))
__CPROVER_requires(from < topology->regions)
__CPROVER_requires(T_TABLES_OK())
/* rollback-safe and thread-safe: the only thing a query may change is the caller's own generator */
__CPROVER_assigns(RNG_FRAME)
__CPROVER_ensures(T_RESULT_OK(topology, from, __CPROVER_return_value))
/* a fixed direction is a pure function of (from, topology, direction) */
__CPROVER_ensures((direction != DIRECTION_RANDOM && (T_IS_GRID(topology) || T_IS_RING(topology)))
	==> __CPROVER_return_value == ts_fixed(topology, from, direction))
/* DIRECTION_RANDOM finds a neighbour whenever one exists */
__CPROVER_ensures((direction == DIRECTION_RANDOM && ts_has_neighbour(topology, from)) ==> __CPROVER_return_value != INVALID_DIRECTION)
/* and never the source itself in a mesh or star */
__CPROVER_ensures((topology->geometry == TOPOLOGY_FCMESH || topology->geometry == TOPOLOGY_STAR) ==> __CPROVER_return_value != from)
;

lp_id_t CountDirections(lp_id_t from, struct topology *topology)
__CPROVER_requires(T_WF(topology))
__CPROVER_requires(from < topology->regions)
__CPROVER_assigns()
__CPROVER_ensures((T_IS_GRID(topology) || T_IS_RING(topology)) ==> __CPROVER_return_value == ts_count(topology, from))
__CPROVER_ensures(topology->geometry == TOPOLOGY_FCMESH ==> __CPROVER_return_value == topology->regions - 1)
__CPROVER_ensures(topology->geometry == TOPOLOGY_STAR ==> __CPROVER_return_value == (from == 0 ? topology->regions - 1 : 1))
;

bool IsNeighbor(lp_id_t from, lp_id_t to, struct topology *topology)
__CPROVER_requires(T_WF(topology))
__CPROVER_requires(from < topology->regions && to < topology->regions)
__CPROVER_assigns()
__CPROVER_ensures(__CPROVER_return_value == ts_neighbor(topology, from, to))
;

#endif
