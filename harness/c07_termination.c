/* C07 - No premature termination: harnesses for src/gvt/termination.c (the real text is #included). */
#include "verif_harness.h"
#include "gvt/termination.c"

simtime_t verif_unset;
bool verif_unset_known;
bool verif_pred;
unsigned verif_bcast;

#ifndef VERIF_NATIVE
#include "contracts/termination.h"
/* termination_lp_init's own contract cannot assume the sentinel is already known while the harness learns it */
#else
#define T_UNSET(lp) ((lp)->termination_t == verif_unset)
#define T_LEGAL(t) ((t) >= 0.0 && (t) < SIMTIME_MAX)
#define T_WF(lp) (T_UNSET(lp) || ((lp)->termination_t >= 0.0 && (lp)->termination_t <= SIMTIME_MAX))
#define T_MAXT(lp) (T_UNSET(lp) || (lp)->termination_t <= max_t || (lp)->termination_t == SIMTIME_MAX)
#define T_GVT_MAY_VOTE(l, m, g) (((l) == 0 && (m) < (g)) || (g) >= global_config.termination_time)
#endif

/* environment of the module (VERIF_STUB: model predicate, MPI broadcast) */
static bool stub_committed(lp_id_t me, const void *snap)
{
	(void)me;
	(void)snap;
	return verif_pred;
}
void mpi_control_msg_broadcast(enum msg_ctrl_code c)
{
	if(c == MSG_CTRL_TERMINATION)
		verif_bcast++;
}
struct simulation_configuration global_config;
struct lp_ctx *lps;
nid_t n_nodes;

static struct lp_ctx lp_store[2];

/* learn the sentinel by running the real initialiser with a false predicate */
static void t_learn(void)
{
	lps = lp_store;
	global_config.committed = stub_committed;
	verif_pred = false;
	verif_unset_known = false;
	lps_to_end = 0;
	termination_lp_init(&lps[0]);
	verif_unset = lps[0].termination_t;
	verif_unset_known = true;
}

/* arbitrary thread-local module state over two LPs */
static struct lp_ctx *t_state(void)
{
	t_learn();
	VIN(simtime_t, in_t0);
	VIN(simtime_t, in_t1);
	VIN(uint64_t, in_lps_to_end);
	VIN(simtime_t, in_max_t);
	VIN(unsigned, in_thr_to_end);
	VIN(simtime_t, in_term_time);
	VIN(bool, in_pred);
	VIN(unsigned, in_k);
	VASSUME(in_k < 2);
	lps[0].termination_t = in_t0;
	lps[1].termination_t = in_t1;
	lps_to_end = in_lps_to_end;
	max_t = in_max_t;
	thr_to_end = in_thr_to_end;
	global_config.termination_time = in_term_time;
	verif_pred = in_pred;
	verif_bcast = 0;
	return &lps[in_k];
}

/* the sentinel is not a legal timestamp (the defect this property names: "first true at an event with timestamp 0") */
void h_sentinel(void)
{
	t_learn();
	simtime_t first = verif_unset;
	t_learn();
	VASSERT(first == verif_unset, "C07.sentinel is one fixed value");
	VASSERT(verif_unset == verif_unset, "C07.sentinel is not NaN (so the unset test can ever succeed)");
	VASSERT(!(verif_unset >= 0.0), "C07.sentinel is not a legal event timestamp (t >= 0)");
	VCANARY("h_sentinel reachable");
}

/* single top-level call only (dfcc): the sentinel is not learnt here; the contract pins it down as "< 0" and
 * h_sentinel shows it is one fixed value */
void h_lp_init(void)
{
	lps = lp_store;
	global_config.committed = stub_committed;
	verif_unset_known = false;
	VIN(bool, in_pred);
	VIN(uint64_t, in_lps_to_end);
	VIN(unsigned, in_k);
	VASSUME(in_k < 2);
	verif_pred = in_pred;
	lps_to_end = in_lps_to_end;
	struct lp_ctx *lp = &lps[in_k];
#ifdef VERIF_NATIVE
	VASSUME(lps_to_end < UINT64_MAX);
#endif
	termination_lp_init(lp);
	VASSERT(verif_pred || lp->termination_t < 0.0, "C07.lp_init false predicate stores a value that is no legal timestamp");
	VASSERT(!verif_pred || lp->termination_t == SIMTIME_MAX, "C07.lp_init true predicate: terminated since initialisation");
	VCANARY("h_lp_init reachable");
}

void h_on_msg_process(void)
{
	struct lp_ctx *lp = t_state();
	VIN(simtime_t, msg_time);
	simtime_t old_t = lp->termination_t;
	uint64_t old_cnt = lps_to_end;
	bool was_unset = T_UNSET(lp);
#ifdef VERIF_NATIVE
	VASSUME(T_LEGAL(msg_time) && T_WF(lp) && T_MAXT(lp) && max_t >= 0.0 && (!T_UNSET(lp) || lps_to_end >= 1));
#endif
	termination_on_msg_process(lp, msg_time);
	VASSERT(lps_to_end == old_cnt - ((was_unset && !T_UNSET(lp)) ? 1U : 0U),
	    "C07.T1 lps_to_end moves exactly when the LP leaves the unset state");
	VASSERT(!(was_unset && verif_pred) || (!T_UNSET(lp) && lp->termination_t == msg_time),
	    "C07.T1 predicate true after the event: LP recorded as terminated at the event time");
	VASSERT(!(was_unset && !verif_pred) || T_UNSET(lp), "C07.T1 predicate false: LP stays unset");
	VASSERT(was_unset || lp->termination_t == old_t, "C07.T1 terminated LP untouched");
	VCANARY("h_on_msg_process reachable");
	VCOVER(was_unset && verif_pred && msg_time == 0.0, "h_on_msg_process covers first-true-at-timestamp-0");
}

void h_on_lp_rollback(void)
{
	struct lp_ctx *lp = t_state();
	VIN(simtime_t, msg_time);
	simtime_t old_t = lp->termination_t;
	uint64_t old_cnt = lps_to_end;
	bool was_unset = T_UNSET(lp);
#ifdef VERIF_NATIVE
	VASSUME(T_LEGAL(msg_time) && T_WF(lp) && T_MAXT(lp) && lps_to_end < UINT64_MAX);
#endif
	termination_on_lp_rollback(lp, msg_time);
	VASSERT(lps_to_end == old_cnt + ((!was_unset && T_UNSET(lp)) ? 1U : 0U),
	    "C07.T2 lps_to_end moves exactly when the LP returns to the unset state");
	VASSERT(!(!was_unset && old_t >= msg_time && old_t != SIMTIME_MAX) || T_UNSET(lp),
	    "C07.T2 speculative termination at/after the rollback point is withdrawn");
	VASSERT(!was_unset || T_UNSET(lp), "C07.T2 unset LP stays unset on rollback");
	VASSERT(!(!was_unset && (old_t < msg_time || old_t == SIMTIME_MAX)) || lp->termination_t == old_t,
	    "C07.T2 termination before the rollback point is kept");
	VCANARY("h_on_lp_rollback reachable");
	VCOVER(!was_unset && old_t == 0.0 && msg_time == 0.0, "h_on_lp_rollback covers rollback at timestamp 0");
}

void h_on_gvt(void)
{
	(void)t_state();
	VIN(simtime_t, gvt);
	unsigned old_thr = thr_to_end;
	uint64_t old_cnt = lps_to_end;
	simtime_t old_max = max_t;
#ifdef VERIF_NATIVE
	VASSUME(gvt >= 0.0 && gvt <= SIMTIME_MAX && global_config.termination_time == global_config.termination_time &&
		max_t >= 0.0);
#endif
	termination_on_gvt(gvt);
	VASSERT(thr_to_end == old_thr || T_GVT_MAY_VOTE(old_cnt, old_max, gvt),
	    "C07.T4 the thread votes only if all its LPs terminated strictly below GVT or GVT reached the time limit");
	VASSERT(verif_bcast == ((thr_to_end != old_thr && old_thr == 1U) ? 1U : 0U),
	    "C07.T5 termination is broadcast exactly by the last voter");
	VCANARY("h_on_gvt reachable");
}

void h_on_ctrl_msg(void)
{
	VIN(nid_t, in_nodes);
	nodes_to_end = in_nodes;
	VASSUME(in_nodes > 0);
	termination_on_ctrl_msg();
	VASSERT(nodes_to_end == in_nodes - 1, "C07.ctrl one control message retires exactly one node");
	VCANARY("h_on_ctrl_msg reachable");
}

void h_global_init(void)
{
	VIN(unsigned, in_threads);
	VIN(nid_t, in_nodes);
	global_config.n_threads = in_threads;
	n_nodes = in_nodes;
	termination_global_init();
	VCANARY("h_global_init reachable");
}

#ifndef VERIF_NATIVE
/* Composition over contracts only (callees replaced by their contracts): the thread-level invariant
 *   INV: lps_to_end == #unset LPs  /\  every LP well formed and dominated by max_t
 * is preserved by every operation, on a thread with two LPs and an arbitrary operation on an arbitrary LP. */
#define T_INV()                                                                                                        \
	(lps_to_end == (uint64_t)T_UNSET(&lps[0]) + (uint64_t)T_UNSET(&lps[1]) && T_WF(&lps[0]) && T_WF(&lps[1]) &&    \
	    T_MAXT(&lps[0]) && T_MAXT(&lps[1]) && max_t >= 0.0)

void h_thread_invariant(void)
{
	struct lp_ctx *lp = t_state();
	VIN(simtime_t, msg_time);
	VIN(unsigned, op);
	VASSUME(T_INV());
	VASSUME(T_LEGAL(msg_time));
	if(op == 0)
		termination_on_msg_process(lp, msg_time);
	else if(op == 1)
		termination_on_lp_rollback(lp, msg_time);
	VASSERT(T_INV(), "C07.INV thread invariant (lps_to_end == #unset, max_t dominates) preserved by process/rollback contracts");
	VCANARY("h_thread_invariant reachable");
}

void h_thread_invariant_init(void)
{
	t_learn();
	VIN(bool, p0);
	VIN(bool, p1);
	lps_to_end = 0;
	max_t = 0.0; /* thread-local zero initialisation */
	verif_pred = p0;
	termination_lp_init(&lps[0]);
	verif_pred = p1;
	termination_lp_init(&lps[1]);
	VASSERT(T_INV(), "C07.INV established by lp_init contracts from the zero-initialised thread state");
	VCANARY("h_thread_invariant_init reachable");
}

/* The vote is sound: under INV, when the thread votes, every LP is terminated on a committed state (strictly below
 * the GVT, or since initialisation) unless the GVT reached the configured termination time. */
void h_vote_sound(void)
{
	(void)t_state();
	VIN(simtime_t, gvt);
	VASSUME(T_INV());
	VASSUME(gvt >= 0.0 && gvt <= SIMTIME_MAX);
	VASSUME(global_config.termination_time == global_config.termination_time);
	unsigned old_thr = thr_to_end;
	termination_on_gvt(gvt);
	if(thr_to_end != old_thr && !(gvt >= global_config.termination_time)) {
		VASSERT(!T_UNSET(&lps[0]) && !T_UNSET(&lps[1]), "C07.VOTE no LP of a voting thread is unset");
		VASSERT((lps[0].termination_t < gvt || lps[0].termination_t == SIMTIME_MAX) &&
			    (lps[1].termination_t < gvt || lps[1].termination_t == SIMTIME_MAX),
		    "C07.VOTE every LP of a voting thread terminated strictly below the GVT (or at initialisation)");
	}
	VCANARY("h_vote_sound reachable");
}
#endif
