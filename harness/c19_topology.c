/* C19 - topology queries are mutually consistent and rollback-safe (src/lib/topology/topology.c, real text #included).
 * One geometry per harness instance (-DC19_GEOM=...), sizes inside a stated box (-DC19_BOX=...). */
#include "verif_harness.h"
#include <string.h>
#include "lp/lp.h"
#include "lib/topology/topology.c"

__thread struct lp_ctx *current_lp;
#ifndef VERIF_NATIVE
/* Random()/RandomRange() are used through their contracts only (C18): any value the contract allows */
extern double Random(void);
extern int RandomRange(int min, int max);
#include "contracts/random.h"
#include "contracts/topology.h"
#else
#include "lib/random/random.c"
#include "lib/random/xxtea.c"
struct simulation_configuration global_config;
#endif

#ifndef C19_BOX
#define C19_BOX 8
#endif
/* C19_GEOM undefined: the geometry is symbolic too (all seven non-graph geometries in one harness) */
#ifdef C19_GEOM
#define GEOM_IN() unsigned in_geom = C19_GEOM
#else
#define GEOM_IN() VIN(unsigned, in_geom); VASSUME(in_geom >= TOPOLOGY_HEXAGON && in_geom <= TOPOLOGY_FCMESH)
#define C19_GEOM in_geom
#endif

static struct lp_ctx the_lp;
static struct rng_ctx the_ctx;
static struct topology T;

#define TOPO_SETUP()                                                                                                   \
	VIN_ARR(uint64_t, in_state, 4);                                                                                \
	for(int k_ = 0; k_ < 4; k_++)                                                                                  \
		the_ctx.state[k_] = in_state[k_];                                                                      \
	the_lp.rng_ctx = &the_ctx;                                                                                     \
	current_lp = &the_lp;                                                                                          \
	VIN(uint32_t, in_w);                                                                                           \
	VIN(uint32_t, in_h);                                                                                           \
	VIN(lp_id_t, from);                                                                                            \
	VASSUME(in_w >= 1 && in_w <= C19_BOX && in_h >= 1 && in_h <= C19_BOX);                                         \
	VASSUME((lp_id_t)in_w * in_h <= INT_MAX);                                                                      \
	GEOM_IN();                                                                                                     \
	memset(&T, 0, sizeof(T));                                                                                      \
	T.geometry = C19_GEOM;                                                                                         \
	if(C19_GEOM <= TOPOLOGY_TORUS) {                                                                               \
		T.width = in_w;                                                                                        \
		T.height = in_h;                                                                                       \
		T.regions = (lp_id_t)in_w * in_h;                                                                      \
	} else {                                                                                                       \
		T.regions = (lp_id_t)in_w * in_h; /* any count in 1..BOX*BOX */                                        \
	}                                                                                                              \
	VASSUME(from < T.regions)

#ifdef VERIF_NATIVE
static unsigned n_count_fixed(lp_id_t from)
{
	unsigned n = 0;
	for(unsigned d = 0; d < DIRECTION_RANDOM; d++)
		n += GetReceiver(from, &T, d) != INVALID_DIRECTION;
	return n;
}
#endif

void h_GetReceiver(void)
{
	TOPO_SETUP();
	VIN(unsigned, dir);
	VASSUME(dir <= DIRECTION_RANDOM);
	lp_id_t r = GetReceiver(from, &T, (enum topology_direction)dir);
	VASSERT(r == INVALID_DIRECTION || r < T.regions, "C19.GetReceiver result is INVALID_DIRECTION or a region of the topology");
#ifdef VERIF_NATIVE
	VASSERT(r == INVALID_DIRECTION || IsNeighbor(from, r, &T), "C19.GetReceiver result confirmed by IsNeighbor");
	if(dir == DIRECTION_RANDOM && C19_GEOM <= TOPOLOGY_BIDRING)
		VASSERT(n_count_fixed(from) == 0 || r != INVALID_DIRECTION, "C19.GetReceiver random direction finds an existing neighbour");
#endif
	VCANARY("h_GetReceiver reachable");
	VCOVER(dir == DIRECTION_RANDOM && r != INVALID_DIRECTION, "h_GetReceiver covers a successful random query");
}

#ifndef VERIF_NATIVE
/* the per-geometry helper against the abstract view (real arithmetic vs ts_fixed) */
void h_helper(void)
{
	TOPO_SETUP();
	VIN(unsigned, dir);
	lp_id_t r;
	switch(C19_GEOM) {
		case TOPOLOGY_HEXAGON: r = get_neighbor_hexagon(from, &T, (enum topology_direction)dir); break;
		case TOPOLOGY_SQUARE: r = get_neighbor_square(from, &T, (enum topology_direction)dir); break;
		case TOPOLOGY_TORUS: r = get_neighbor_torus(from, &T, (enum topology_direction)dir); break;
		case TOPOLOGY_RING: r = get_neighbor_ring(from, &T, (enum topology_direction)dir); break;
		case TOPOLOGY_BIDRING: r = get_neighbor_bidring(from, &T, (enum topology_direction)dir); break;
		case TOPOLOGY_STAR: r = get_neighbor_star(from, &T, (enum topology_direction)dir); break;
		default: r = get_neighbor_mesh(from, &T, (enum topology_direction)dir); break;
	}
	VASSERT(r == INVALID_DIRECTION || r < T.regions, "C19.helper result is INVALID_DIRECTION or a region of the topology");
	VCANARY("h_helper reachable");
	VCOVER(dir == DIRECTION_RANDOM && r != INVALID_DIRECTION, "h_helper covers a successful random query");
}

/* get_random_neighbor on the table the repository passes for this geometry; GetReceiver by contract */
void h_get_random_neighbor(void)
{
	TOPO_SETUP();
	lp_id_t r;
	if(C19_GEOM == TOPOLOGY_HEXAGON)
		r = get_random_neighbor(from, &T, sizeof(directions_hexagon) / sizeof(enum topology_direction), directions_hexagon);
	else
		r = get_random_neighbor(from, &T, sizeof(directions_square_torus) / sizeof(enum topology_direction), directions_square_torus);
	VASSERT(r == INVALID_DIRECTION || r < T.regions, "C19.get_random_neighbor result is INVALID_DIRECTION or a region of the topology");
	VCANARY("h_get_random_neighbor reachable");
}
#endif

void h_CountDirections(void)
{
	TOPO_SETUP();
	lp_id_t c = CountDirections(from, &T);
#ifdef VERIF_NATIVE
	if(C19_GEOM <= TOPOLOGY_BIDRING)
		VASSERT(c == n_count_fixed(from), "C19.CountDirections equals the number of fixed directions with a receiver");
#else
	VASSERT(!(T_IS_GRID(&T) || T_IS_RING(&T)) || c == ts_count(&T, from),
	    "C19.CountDirections equals the number of fixed directions with a receiver");
#endif
	VCANARY("h_CountDirections reachable");
}

void h_IsNeighbor(void)
{
	TOPO_SETUP();
	VIN(lp_id_t, to);
	VASSUME(to < T.regions);
	bool r = IsNeighbor(from, to, &T);
	(void)r;
	VCANARY("h_IsNeighbor reachable");
	VCOVER(r, "h_IsNeighbor covers a positive answer");
}
