import sys
name, focus, demo_hint = sys.argv[1], sys.argv[2], sys.argv[3]
pid = name[:3]
print(f"""You are helping test a verification effort by producing a realistic *defect injection* for the C project ROOT-Sim/core (an optimistic Time Warp parallel discrete-event simulation runtime). Work ONLY inside the scratch git worktree /tmp/wt_{name} (a checkout of the repository) and write your results to /tmp/out_{name}/. Do NOT read or touch /verif or /repo or any other /tmp/wt_* or /tmp/out_* directory. There is no network.

Read /tmp/out_{name}/PROPERTY.txt: it states one semantic property of the code base. Your task: make ONE small source change under /tmp/wt_{name}/src that BREAKS this property, such that
 (a) the project still compiles and the existing test suite still passes:  cd /tmp/wt_{name} && cmake -G Ninja -S . -B _build >/dev/null && cmake --build _build && sed -i 's/TIMEOUT "60"/TIMEOUT "900"/' _build/test/CTestTestfile.cmake && ctest --test-dir _build -j4 --timeout 900   (all 23 ctest tests must pass; the sed only raises the hard-coded 60 s per-test timeout in a generated file because the machine is heavily loaded; the parallel tests are scheduler dependent, so run the suite twice);
 (b) the breakage needs something specific to manifest (a multi-step sequence, an unusual input, a particular position/size/ordering, two cooperating sites that each look fine alone) - NOT something ordinary use exposes at once;
 (c) you provide a demonstration: a small C test program that exercises the REAL code and FAILS with your change and PASSES without it. {demo_hint} Compile with -DNDEBUG -I/tmp/wt_{name}/src; you may `#include` the relevant src/*.c files directly into the demo translation unit with small stubs for what they call, or link /tmp/wt_{name}/_build/src/librscore.a ($(mpicc --showme:link) -lm -lpthread).
FOCUS for this task: {focus}
The change should look like a plausible programming mistake (off-by-one, wrong comparison, forgotten update, wrong variable, a 'harmless' refactor that is not equivalent). Prefer a change inside a single function's logic. Do not change function signatures, do not add files to src, do not touch tests.

Deliverables in /tmp/out_{name}/ :
  patch.diff      - output of `git -C /tmp/wt_{name} diff` (only the src change)
  demo.c (+ any helper) and run_demo.sh - a script that builds and runs the demonstration against a given repo root passed as $1 (e.g. `sh run_demo.sh /tmp/wt_{name}`), exit code 0 = property holds, non-zero = violated
  README.md       - what the change is, which property clause it breaks, what is needed for it to manifest, and the exact commands you ran (test suite result with the change, demo result with and without the change).
Verify everything yourself: test suite with the change (must pass), demo with the change (must fail) and with the change reverted via `git stash` (must pass), then re-apply the change (`git stash pop`) so the worktree ends in the mutated state. Be economical: one good mutant is enough. Report back a short summary (the diff and what you verified).""")
