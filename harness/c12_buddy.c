/* C12 - rollbackable allocator: harnesses for one buddy arena, src/mm/buddy/buddy.c (real text #included).
 * The arena geometry is the repository's unless the driver substitutes a reduced one (stated in the evidence). */
#include "verif_harness.h"
#include "mm/buddy/buddy.c"
#include "core/intrinsics.h"

uint32_t verif_g;
bool verif_g_live_before;
uint8_t verif_g_val_before;
uint8_t verif_root_before;
uint32_t verif_n;

#include "contracts/buddy.h"

static struct buddy_state B;

/* an arbitrary allocation tree (the harness is handed every tree; the contract's precondition keeps the WF ones) */
#define ARENA_SETUP()                                                                                                  \
	VIN_ARR(uint8_t, in_longest, (1U << (B_TOTAL_EXP - B_BLOCK_EXP + 1)));                                         \
	for(uint32_t k_ = 0; k_ < (1U << (B_TOTAL_EXP - B_BLOCK_EXP + 1)); k_++)                                       \
		B.longest[k_] = in_longest[k_];                                                                        \
	VIN(uint32_t, in_g);                                                                                           \
	verif_g = in_g;                                                                                                \
	VASSUME(verif_g < B_NODES);                                                                                    \
	NATIVE_ASSUME(b_wf(&B))

#ifdef VERIF_NATIVE
#define NATIVE_ASSUME(c) VASSUME(c)
#else
#define NATIVE_ASSUME(c) ((void)0)
#endif

void h_buddy_init(void)
{
	VIN(uint32_t, in_g);
	verif_g = in_g;
	VASSUME(verif_g < B_NODES);
	buddy_init(&B);
	VASSERT(B.longest[0] == B_TOTAL_EXP, "C12.init whole arena free");
	VCANARY("h_buddy_init reachable");
}

void h_buddy_malloc(void)
{
	ARENA_SETUP();
	VIN(uint_fast8_t, e);
	NATIVE_ASSUME(B_BLOCK_EXP <= e && e <= B_TOTAL_EXP);
	verif_g_live_before = b_live(B.longest, verif_g);
	verif_g_val_before = B.longest[verif_g];
	verif_root_before = B.longest[0];
	void *p = buddy_malloc(&B, e);
#if C12_SLICE == 0
	if(p != NULL) {
		uint32_t off = (uint32_t)((char *)p - (char *)B.base_mem);
		VASSERT(off + (1U << e) <= B_TOTAL && (off & ((1U << e) - 1U)) == 0, "C12.malloc block inside the arena and aligned to its size");
		uint32_t n = b_node(off, e);
		VASSERT(!verif_g_live_before || (verif_g != n && b_disjoint(verif_g, n)), "C12.malloc block overlaps no block that was live");
		VASSERT(!verif_g_live_before || b_live(B.longest, verif_g), "C12.malloc live blocks stay live");
		VASSERT(b_live(B.longest, n), "C12.malloc returned block is live");
	} else {
		VASSERT(verif_root_before < e, "C12.malloc fails only when no block of the class is free");
		VASSERT(B.longest[verif_g] == verif_g_val_before, "C12.malloc failure changes nothing");
	}
	VASSERT(b_wf(&B), "C12.malloc tree well formed afterwards");
#endif
	VCANARY("h_buddy_malloc reachable");
	VCOVER(p == NULL, "h_buddy_malloc covers failure");
	VCOVER(p != NULL && verif_g_live_before && e > B_BLOCK_EXP, "h_buddy_malloc covers success next to a live block");
}

void h_buddy_free(void)
{
	ARENA_SETUP();
	VIN(uint32_t, in_n);
	verif_n = in_n;
	VASSUME(verif_n < B_NODES);
	NATIVE_ASSUME(b_live(B.longest, verif_n));
	verif_g_live_before = b_live(B.longest, verif_g);
	void *p = B.base_mem + b_off(verif_n);
	uint_fast32_t sz = buddy_free(&B, p);
#if C12_SLICE == 0
	VASSERT(sz == (uint_fast32_t)1U << b_lev(verif_n), "C12.free returns the block size");
	VASSERT(!b_live(B.longest, verif_n), "C12.free block no longer live");
	VASSERT(verif_g == verif_n || b_live(B.longest, verif_g) == verif_g_live_before, "C12.free other blocks unaffected");
	VASSERT(B.longest[0] >= b_lev(verif_n), "C12.free space reusable");
	VASSERT(b_wf(&B), "C12.free tree well formed afterwards");
#else
	(void)sz;
#endif
	VCANARY("h_buddy_free reachable");
	VCOVER(b_lev(verif_n) > B_BLOCK_EXP && verif_g != verif_n && verif_g_live_before, "h_buddy_free covers inner-node block with another live block");
}

void h_buddy_realloc(void)
{
	ARENA_SETUP();
	VIN(uint32_t, in_n);
	VIN(size_t, req);
	verif_n = in_n;
	VASSUME(verif_n < B_NODES);
	NATIVE_ASSUME(b_live(B.longest, verif_n));
	void *p = B.base_mem + b_off(verif_n);
	struct buddy_realloc_res r = buddy_best_effort_realloc(&B, p, req);
	VASSERT(!r.handled || (r.variation == 0 && ((size_t)1 << b_lev(verif_n)) >= req), "C12.realloc in place only if the block is large enough");
	VASSERT(r.handled || r.original == (uint_fast32_t)1U << b_lev(verif_n), "C12.realloc reports the old block size");
	VCANARY("h_buddy_realloc reachable");
	VCOVER(r.handled, "h_buddy_realloc covers handled");
}

/* buddy_allocation_block_compute (macro): smallest class >= max(req, 64), all size_t */
static uint_fast8_t w_block_compute(size_t req_size)
{
	uint_fast8_t e = buddy_allocation_block_compute(req_size);
	return e;
}
void h_block_compute(void)
{
	VIN(size_t, req);
	uint_fast8_t e = w_block_compute(req);
	VASSERT(e >= B_BLOCK_EXP && e <= 64, "C12.class at least the minimum block");
	VASSERT(e == 64 || ((size_t)1 << e) >= req, "C12.class holds the request");
	VASSERT(e == B_BLOCK_EXP || ((size_t)1 << (e - 1)) < req, "C12.class is minimal");
	VASSERT((req > B_TOTAL) == (e > B_TOTAL_EXP), "C12.class over-size requests are recognised exactly");
	VCANARY("h_block_compute reachable");
}
