/* verif_harness.h - shared by every harness translation unit of /verif.
 *
 * Two build modes of the *same* harness text:
 *   - CBMC (default): inputs are nondeterministic, VASSUME restricts them, VASSERT is a proof obligation,
 *     VCANARY is an assertion that MUST FAIL (vacuity guard: it is reachable iff the assumptions are satisfiable).
 *   - native (-DVERIF_NATIVE): inputs are read from a replay file produced from a CBMC counterexample,
 *     VASSERT prints REPLAY-FAIL, the real code runs under ASan/UBSan.
 */
#ifndef VERIF_HARNESS_H
#define VERIF_HARNESS_H

#include <stdbool.h>
#include <stddef.h>
#include <stdint.h>

#ifdef VERIF_NATIVE

#include <stdio.h>
#include <stdlib.h>
#include <string.h>

extern int verif_failed;
void verif_in(const char *name, void *p, size_t sz);
void verif_in_arr(const char *name, void *p, size_t elsz, size_t n);

#define VIN(type, name)                                                                                                \
	type name;                                                                                                     \
	verif_in(#name, &name, sizeof(name))
#define VIN_ARR(type, name, n)                                                                                         \
	static type name##_store[n];                                                                                   \
	type *name = name##_store;                                                                                     \
	verif_in_arr(#name, name, sizeof(type), (n))
#define VASSUME(c)                                                                                                     \
	do {                                                                                                           \
		if(!(c)) {                                                                                             \
			printf("REPLAY-ASSUME-UNMET %s\n", #c);                                                        \
			exit(3);                                                                                       \
		}                                                                                                      \
	} while(0)
#define VASSERT(c, msg)                                                                                                \
	do {                                                                                                           \
		if(!(c)) {                                                                                             \
			printf("REPLAY-FAIL %s\n", msg);                                                               \
			verif_failed = 1;                                                                              \
		}                                                                                                      \
	} while(0)
#define VCANARY(msg) ((void)0)
#define VCOVER(c, msg) ((void)0)

/* contract clauses do not exist natively */
#define __CPROVER_requires(...)
#define __CPROVER_ensures(...)
#define __CPROVER_assigns(...)
#define __CPROVER_frees(...)

#else /* CBMC */

#define VIN(type, name)                                                                                                \
	type nondet_in_##name(void);                                                                                   \
	type name = nondet_in_##name()
/* a whole array as ONE nondeterministic struct value, so that the counterexample trace lists every element */
#define VIN_CAT_(a, b) a##__L##b
#define VIN_CAT(a, b) VIN_CAT_(a, b)
#define VIN_ARR(type, name, n) VIN_ARR_(type, name, n, VIN_CAT(name, __LINE__))
#define VIN_ARR_(type, name, n, uniq) VIN_ARR__(type, name, n, uniq)
#define VIN_ARR__(type, name, n, uniq)                                                                                 \
	struct uniq##_s {                                                                                              \
		type v[n];                                                                                             \
	};                                                                                                             \
	struct uniq##_s nondet_in_##uniq(void);                                                                        \
	struct uniq##_s name##_vin = nondet_in_##uniq();                                                               \
	type *name = name##_vin.v
#define VASSUME(c) __CPROVER_assume(c)
#define VASSERT(c, msg) __CPROVER_assert((c), msg)
/* must be refuted by CBMC: proves the code before it is reachable under the assumptions made */
#define VCANARY(msg) __CPROVER_assert(0, "CANARY " msg)
#define VCOVER(c, msg) __CPROVER_assert(!(c), "CANARY " msg)

#endif

#include "contracts/loops.h"

#endif
