/* C11 / C06 - message buffer allocator: src/mm/msg_allocator.c with array.h (real text). Bounded: pools of <= NP buffers. */
#include "verif_harness.h"
#include <stdlib.h>
#include "mm/msg_allocator.c"

#ifndef NP
#define NP 3
#endif
#define CAP 8

void vlogger(enum log_level l, char *f, unsigned n, const char *fmt, ...) { (void)l; (void)f; (void)n; (void)fmt; }

#ifndef VERIF_NATIVE
/* VERIF_STUB realloc: the pools are given spare capacity; "never reallocates here" is a checked obligation */
void *realloc(void *p, size_t n)
{
	(void)n;
	__CPROVER_assert(0, "C11.harness capacity suffices: the pools never reallocate in this bounded scenario");
	return p;
}
#endif

static struct lp_msg *B[2 * NP + 1];
static unsigned n_bufs;
static struct lp_msg *mk(uint32_t pls, simtime_t t)
{
	struct lp_msg *m = malloc(offsetof(struct lp_msg, pl) + (pls > MSG_PAYLOAD_BASE_SIZE ? pls : MSG_PAYLOAD_BASE_SIZE));
	VASSUME(m != NULL);
	m->pl_size = pls;
	m->dest_t = t;
	B[n_bufs++] = m;
	return m;
}
static unsigned occurrences(struct lp_msg **items, unsigned n, const struct lp_msg *m)
{
	unsigned c = 0;
	for(unsigned i = 0; i < CAP; i++)
		if(i < n && items[i] == m)
			c++;
	return c;
}

/* arbitrary pools: free_list holds nf <= NP released small buffers, at_gvt_list holds ng <= NP deferred buffers */
#define POOLS_SETUP()                                                                                                  \
	VIN(unsigned, nf);                                                                                             \
	VIN(unsigned, ng);                                                                                             \
	VIN_ARR(uint32_t, in_pls, NP);                                                                                 \
	VIN_ARR(simtime_t, in_t, NP);                                                                                  \
	VASSUME(nf <= NP && ng <= NP);                                                                                 \
	n_bufs = 0;                                                                                                    \
	free_list.items = malloc(CAP * sizeof(struct lp_msg *));                                                       \
	at_gvt_list.items = malloc(CAP * sizeof(struct lp_msg *));                                                     \
	VASSUME(free_list.items != NULL && at_gvt_list.items != NULL);                                                 \
	free_list.capacity = at_gvt_list.capacity = CAP;                                                               \
	free_list.count = nf;                                                                                          \
	at_gvt_list.count = ng;                                                                                        \
	for(unsigned k_ = 0; k_ < NP; k_++)                                                                            \
		if(k_ < nf)                                                                                            \
			free_list.items[k_] = mk(0, 0.0);                                                              \
	for(unsigned k_ = 0; k_ < NP; k_++)                                                                            \
		if(k_ < ng) {                                                                                          \
			VASSUME(in_pls[k_] <= 64 && in_t[k_] == in_t[k_]);                                             \
			at_gvt_list.items[k_] = mk(in_pls[k_], in_t[k_]);                                              \
		}

void h_alloc(void)
{
	POOLS_SETUP();
	VIN(unsigned, pls);
	VASSUME(pls <= 4096);
	struct lp_msg *m = msg_allocator_alloc(pls);
	size_t room = offsetof(struct lp_msg, pl) + (pls > MSG_PAYLOAD_BASE_SIZE ? pls : MSG_PAYLOAD_BASE_SIZE);
#ifndef VERIF_NATIVE
	VASSERT(__CPROVER_rw_ok(m, room), "C11.alloc the buffer has room for the header and the whole payload");
#endif
	(void)room;
	VASSERT(m->pl_size == pls, "C11.alloc the payload size is recorded (the release path depends on it)");
	VASSERT(occurrences(free_list.items, free_list.count, m) == 0, "C11.alloc a buffer handed out is no longer in the pool of released buffers");
	VASSERT(free_list.count == nf - ((pls <= MSG_PAYLOAD_BASE_SIZE && nf > 0) ? 1U : 0U), "C11.alloc small requests reuse a pooled buffer when one exists");
	VCANARY("h_alloc reachable");
	VCOVER(pls > MSG_PAYLOAD_BASE_SIZE && nf > 0, "h_alloc covers a large request with a non-empty pool");
}

void h_free(void)
{
	POOLS_SETUP();
	VIN(unsigned, pls);
	VASSUME(pls <= 64 && nf < NP);
	struct lp_msg *m = mk(pls, 1.0);
	msg_allocator_free(m);
	if(pls <= MSG_PAYLOAD_BASE_SIZE) {
		VASSERT(free_list.count == nf + 1 && occurrences(free_list.items, free_list.count, m) == 1, "C11.free a small buffer is pooled exactly once");
#ifndef VERIF_NATIVE
		VASSERT(__CPROVER_rw_ok(m, sizeof(struct lp_msg)), "C11.free a pooled buffer stays allocated");
#endif
	} else {
		VASSERT(free_list.count == nf, "C11.free a large buffer is not pooled (its size differs)");
	}
	VCANARY("h_free reachable");
}

void h_on_gvt(void)
{
	POOLS_SETUP();
	VIN(simtime_t, gvt);
	VIN(unsigned, g);
	VASSUME(gvt == gvt && g < ng);
	struct lp_msg *mg = at_gvt_list.items[g];
	unsigned nf0 = free_list.count;
	msg_allocator_on_gvt(gvt);
	bool committed = in_t[g] < gvt;
	VASSERT(occurrences(at_gvt_list.items, at_gvt_list.count, mg) == (committed ? 0U : 1U),
	    "C06.on_gvt a deferred buffer is released exactly when its time is strictly below the GVT; others stay listed once");
	if(committed && in_pls[g] <= MSG_PAYLOAD_BASE_SIZE)
		VASSERT(occurrences(free_list.items, free_list.count, mg) == 1, "C06.on_gvt a released small buffer is pooled exactly once");
	unsigned expect = 0;
	for(unsigned k = 0; k < NP; k++)
		if(k < ng && !(in_t[k] < gvt))
			expect++;
	VASSERT(at_gvt_list.count == expect, "C06.on_gvt exactly the buffers at or above the GVT remain deferred");
	(void)nf0;
	VCANARY("h_on_gvt reachable");
	VCOVER(ng == NP && expect == 1, "h_on_gvt covers releasing several deferred buffers in one pass");
}

void h_fini(void)
{
	POOLS_SETUP();
	msg_allocator_fini();
	VASSERT(free_list.count == 0 && at_gvt_list.count == 0, "C11.fini both pools are emptied");
	VCANARY("h_fini reachable");
}

/* msg_allocator_pack (inline, msg_allocator.h): fields and payload bytes copied exactly, inside the buffer */
void h_pack(void)
{
	POOLS_SETUP();
	VIN(lp_id_t, receiver);
	VIN(simtime_t, t);
	VIN(unsigned, type);
	VIN(unsigned, pls);
	VIN_ARR(unsigned char, payload, 48);
	VIN(unsigned, g);
	VASSUME(pls <= 48 && g < 48);
	struct lp_msg *m = msg_allocator_pack(receiver, t, type, payload, pls);
	VASSERT(m->dest == receiver && m->m_type == type && m->pl_size == pls && (m->dest_t == t || t != t), "C10.pack the event carries receiver, time, type and size");
	VASSERT(g >= pls || m->pl[g] == payload[g], "C10.pack the payload bytes are copied exactly (also beyond the 32 inline bytes)");
#ifndef VERIF_NATIVE
	VASSERT(__CPROVER_rw_ok(m, offsetof(struct lp_msg, pl) + (pls > MSG_PAYLOAD_BASE_SIZE ? pls : MSG_PAYLOAD_BASE_SIZE)), "C11.pack the buffer holds header and payload");
#endif
	VCANARY("h_pack reachable");
	VCOVER(pls > MSG_PAYLOAD_BASE_SIZE && g >= MSG_PAYLOAD_BASE_SIZE && g < pls, "h_pack covers a payload byte beyond the inline part");
}
