/* contracts/loops.h - the loop contracts named by the VERIF_LOOP(name) hooks in /repo (guard ROOT_SIM_CORE_VERIF).
 * Included (through verif_harness.h) before the real .c text. A harness that wants a hooked loop unwound instead of
 * abstracted defines VERIF_LOOP_<name> as empty before including verif_harness.h.
 * Invariants must be call-free (CBMC), so they speak about locals of the annotated function by name: renaming such a
 * local makes the harness fail to compile, which the driver reports as "undecided" (exit 2), never as a violation. */
#ifndef VERIF_CONTRACT_LOOPS_H
#define VERIF_CONTRACT_LOOPS_H
#ifndef VERIF_NATIVE

#define RNG_STATE_FRAME __CPROVER_object_whole(current_lp->rng_ctx)

/* ---- src/lib/random/random.c: rejection loops, partial correctness (termination is probabilistic, not proved) */
#ifndef VERIF_LOOP_Normal_reject
#define VERIF_LOOP_Normal_reject __CPROVER_assigns(v1, v2, rsq, RNG_STATE_FRAME) __CPROVER_loop_invariant(1 == 1)
#endif
#ifndef VERIF_LOOP_Gamma_direct
/* at most 5 factors, each in [2^-53, 1] by Random()'s contract: the product cannot underflow to 0 */
#define GD_LB(k)                                                                                                       \
	((k) == 0 ? 1.0 : (k) == 1 ? 0x1p-53 : (k) == 2 ? 0x1p-106 : (k) == 3 ? 0x1p-159 : (k) == 4 ? 0x1p-212 : 0x1p-265)
#define VERIF_LOOP_Gamma_direct                                                                                        \
	__CPROVER_assigns(ia, x, RNG_STATE_FRAME)                                                                      \
	__CPROVER_loop_invariant(ia <= __CPROVER_loop_entry(ia) && __CPROVER_loop_entry(ia) < 6 && x <= 1.0 &&        \
				 x >= GD_LB(__CPROVER_loop_entry(ia) - ia))                                            \
	__CPROVER_decreases(ia)
#endif
#ifndef VERIF_LOOP_Gamma_outer
#define VERIF_LOOP_Gamma_outer __CPROVER_assigns(x, y, s, RNG_STATE_FRAME) __CPROVER_loop_invariant(1 == 1)
#endif
#ifndef VERIF_LOOP_Gamma_inner
#define VERIF_LOOP_Gamma_inner __CPROVER_assigns(v1, v2, RNG_STATE_FRAME) __CPROVER_loop_invariant(1 == 1)
#endif
#ifndef VERIF_LOOP_Zipf_reject
#define VERIF_LOOP_Zipf_reject __CPROVER_assigns(x, t, RNG_STATE_FRAME) __CPROVER_loop_invariant(1 == 1)
#endif

/* ---- src/lib/topology/topology.c: retry until a region different from the source is drawn (partial correctness) */
#ifndef VERIF_LOOP_mesh_retry
#define VERIF_LOOP_mesh_retry __CPROVER_assigns(ret, RNG_STATE_FRAME) __CPROVER_loop_invariant(1 == 1)
#endif

/* ---- src/datatypes/msg_queue.c: CAS retry loop of msg_queue_insert (lock-freedom is not proved: no decreases) */
#ifndef VERIF_LOOP_insert_cas
#define VERIF_LOOP_insert_cas /* default: sequential semantics, the CAS succeeds at once; the interference harness overrides this */
#endif

/* ---- src/mm/buddy/multi.c. Defaults are empty (the loop is unwound by the harness); the harnesses that close a loop
 *      by an invariant define the macro before including verif_harness.h (see harness/c13_fossil.c, c05_multi.c). */
#ifndef VERIF_LOOP_rs_malloc_try
#define VERIF_LOOP_rs_malloc_try
#endif
#ifndef VERIF_LOOP_rs_malloc_pos
#define VERIF_LOOP_rs_malloc_pos
#endif
#ifndef VERIF_LOOP_find_by_address
#define VERIF_LOOP_find_by_address
#endif
#ifndef VERIF_LOOP_ckpt_take_arenas
#define VERIF_LOOP_ckpt_take_arenas
#endif
#ifndef VERIF_LOOP_restore_scan
#define VERIF_LOOP_restore_scan
#endif
#ifndef VERIF_LOOP_restore_arenas
#define VERIF_LOOP_restore_arenas
#endif
#ifndef VERIF_LOOP_restore_free
#define VERIF_LOOP_restore_free
#endif
#ifndef VERIF_LOOP_fossil_scan
#define VERIF_LOOP_fossil_scan
#endif
#ifndef VERIF_LOOP_fossil_rebase
#define VERIF_LOOP_fossil_rebase
#endif
#ifndef VERIF_LOOP_fossil_free
#define VERIF_LOOP_fossil_free
#endif

#endif /* !VERIF_NATIVE */
#endif
