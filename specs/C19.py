# C19 - topology queries mutually consistent and rollback-safe. Bounded size box for every geometry (symbolic division
# by the grid width defeats all installed back ends beyond small widths), all sources, all directions, all generator outputs.
LEVEL = "other"
F = "harness/c19_topology.c"
GEOMS = ["HEXAGON", "SQUARE", "TORUS", "RING", "BIDRING", "STAR", "FCMESH"]

HELPERS = ["get_neighbor_hexagon", "get_neighbor_square", "get_neighbor_torus", "get_neighbor_ring", "get_neighbor_bidring",
           "get_neighbor_star", "get_neighbor_mesh"]

def mk(tier, box, timeout, mem):
    hs = []
    for g in GEOMS:
        b = box
        bound = f"width,height <= {b} (grids) / regions <= {b*b} (others); all sources, directions, generator outputs"
        common = dict(file=F, defs=(f"C19_GEOM=TOPOLOGY_{g}", f"C19_BOX={b}"), kind="bounded", bound=bound, tiers=(tier,),
                      timeout=timeout, mem_gb=mem, objbits=12)
        loops = (g == "FCMESH")
        helper = "get_neighbor_" + ("mesh" if g == "FCMESH" else g.lower())
        hs.append(H(name=f"C19.helper.{g}.box{b}", entry="h_helper", enforce=helper,
                    replace=("RandomRange", "Random", "get_random_neighbor"), funcs=[helper], native=False,
                    loops=loops, expect_loops=1 if loops else 0, canaries=2, unwindset=("h_helper.0:5",),
                    desc="real per-geometry arithmetic == abstract view ts_fixed for every fixed direction; result in range and a ts-neighbour; RANDOM finds a neighbour whenever one exists; frame = caller's generator only",
                    **common))
        if g in ("HEXAGON", "SQUARE", "TORUS"):
            hs.append(H(name=f"C19.get_random_neighbor.{g}.box{b}", entry="h_get_random_neighbor", enforce="get_random_neighbor",
                        replace=("RandomRange", "GetReceiver"), funcs=["get_random_neighbor"], native=False,
                        unwindset=("get_random_neighbor.0:9", "get_random_neighbor.1:9", "get_random_neighbor.2:9", "h_get_random_neighbor.0:5"),
                        desc="shuffle-and-probe on the repository's direction table: never writes the shared table (frame = caller's generator), result valid, finds a neighbour whenever some listed direction has one; GetReceiver and RandomRange by contract",
                        **common))
        hs.append(H(name=f"C19.CountDirections.{g}.box{b}", entry="h_CountDirections", enforce="CountDirections",
                    replace=("get_random_neighbor",), funcs=["CountDirections"], unwindset=("CountDirections.0:10", "h_CountDirections.0:5"),
                    desc="CountDirections == number of fixed directions with a receiver (grids, rings) / star, mesh formulas; assigns nothing",
                    **common))
        hs.append(H(name=f"C19.IsNeighbor.{g}.box{b}", entry="h_IsNeighbor", enforce="IsNeighbor", canaries=2,
                    replace=("get_random_neighbor",), funcs=["IsNeighbor"],
                    unwindset=("IsNeighbor.0:10", "IsNeighbor.1:10", "IsNeighbor.2:10", "h_IsNeighbor.0:5"),
                    desc="IsNeighbor == reachable through some fixed direction (grids, rings) / star, mesh formulas; assigns nothing",
                    **common))
    return hs

DISPATCH = [H(name="C19.GetReceiver.dispatch", file=F, entry="h_GetReceiver", enforce="GetReceiver", replace=tuple(HELPERS),
              funcs=["GetReceiver"], defs=("C19_BOX=6",), kind="bounded", bound="all seven geometries; width,height <= 6", canaries=2, unwindset=("h_GetReceiver.0:5",), timeout=900,
              desc="GetReceiver over all seven non-graph geometries (symbolic geometry): the dispatch carries the helpers' contracts to the public contract (callees replaced by contracts); frame = caller's generator only")]

GRAPH = [H(name="C19.graph.links3", file="harness/c19_graph.c", entry="h_graph", funcs=["AddTopologyLink", "get_neighbor_graph", "IsNeighbor", "CountDirections", "GetReceiver"],
           kind="bounded", bound="3 regions, at most 3 link insertions (duplicates allowed), any probabilities in [0,1], any Random() value", canaries=2,
           unwindset=tuple([f"h_graph.{k}:6" for k in range(8)] + ["AddTopologyLink.0:5", "get_neighbor_graph.0:5", "IsNeighbor.0:10", "IsNeighbor.1:10", "IsNeighbor.2:10", "IsNeighbor.3:5", "memset.0:200"]),
           timeout=900, mem_gb=8, flags=("--no-malloc-may-fail",), desc="graph topology built by the real AddTopologyLink (malloc assumed not to fail: AddTopologyLink does not check it): CountDirections == number of distinct links from the region; IsNeighbor == link present; DIRECTION_RANDOM returns a linked region iff one exists; fixed directions invalid")]
HARNESSES = DISPATCH + GRAPH + mk("quick", 6, 900, 8) + mk("thorough", 12, 7200, 16)
EXPLANATION = ("GetReceiver (with get_random_neighbor and the per-geometry helpers, mutual recursion closed by --enforce-contract-rec), "
               "CountDirections and IsNeighbor of the real topology.c are checked against relational contracts (contracts/topology.h): "
               "the fixed-direction part of the code is its own specification, and the three queries must agree with it and with each other. "
               "Random()/RandomRange() are used through their C18 contracts, so every generator output is covered; the frame clause "
               "(only the caller's generator state is assigned) is the 'function of the calling LP's generator only / rollback- and "
               "thread-safe' part. Sizes are bounded by a box (stated per harness) because of the symbolic division by the grid width: "
               "labelled bounded, never counted as proved. TOPOLOGY_GRAPH is covered by a separate bounded harness on adjacency lists built by the real AddTopologyLink (3 regions, <= 3 insertions).")
ASSUMPTIONS = ["topology object shaped as vInitializeTopology builds it (regions == width*height for grids, regions >= 1)",
               "from (and to) are regions of the topology; regions <= INT_MAX for a star",
               "TOPOLOGY_GRAPH: 3 regions, <= 3 link insertions"]
LEVEL_TEXT = ("Contract-based check on the real topology.c for all sources/directions/generator outputs inside a bounded size box "
              "(quick 6x6, thorough 12x12): mutual consistency of GetReceiver/IsNeighbor/CountDirections and the frame 'only the caller's generator'. "
              "Bounded in the grid size, hence category other rather than proof.")
LEVEL_NOTE = "Trusted: CBMC; Random/RandomRange contracts from C18; sizes bounded by the stated box; graph topology bounded to 3 regions / 3 insertions."
TECHNIQUE = "CBMC function contracts (dfcc, --enforce-contract-rec) with relational specs on the real topology.c, bounded size box"
DESIGN_REF = "DESIGN.md §4 C19"
