# C15 - inter-thread queue loses nothing; peek is a true lower bound. Bounded heaps/lists + interference contract on the CAS.
LEVEL = "other"
F = "harness/c15_msg_queue.c"
def uw(entry, QH, QL, extra=()):
    N = QH + QL
    return tuple([f"msg_queue_insert_queued.0:3", f"msg_queue_insert_queued.1:5", f"msg_queue_insert_queued.2:{QL + 2}",
                  f"heap_wf.0:{N + 1}", f"heap_occurrences.0:{N + 1}", "memcmp.0:9", "mk.0:2",
                  f"{entry}.0:{N + 2}", f"{entry}.1:{N + 2}", f"{entry}.2:{N + 2}", f"{entry}.3:{N + 2}"] + list(extra))
def Q(name, entry, desc, QH, QL, tiers, canaries=1, pl=40, extra=(), **kw):
    return H(name=f"C15.{name}.h{QH}l{QL}", file=F, tiers=tiers, entry=entry, funcs=["msg_queue_" + name.split(".")[0]], kind="bounded",
             bound=f"private heap <= {QH} elements, shared buffer <= {QL} nodes, payload <= {pl} bytes",
             defs=(f"QPL={pl}", f"QH={QH}", f"QL={QL}"),
             unwindset=uw(entry, QH, QL, extra), timeout=1800, mem_gb=12, canaries=canaries, desc=desc, **kw)
def fam(QH, QL, tiers):
    N = QH + QL
    return [
    Q("fini", "h_fini", "every queued buffer released exactly once; no read of a released buffer (use-after-free), no double free", QH, QL, tiers,
      canaries=2, extra=("msg_queue_fini.0:%d" % (N + 2), "msg_queue_fini.1:%d" % (QL + 2))),
    Q("extract", "h_extract", "NULL iff empty; result is a minimum of heap+buffer; multiset preserved minus the result; buffer drained; heap order kept", QH, QL, tiers,
      canaries=2, extra=("msg_queue_extract.0:5",)),
    Q("time_peek", "h_time_peek", "result <= timestamp of every queued message; SIMTIME_MAX iff empty; nothing lost", QH, QL, tiers),
    ]
def heapint(hn, tiers, to):
    uw = tuple(["heap_ok.0:17", "occurrences.0:17", "w_insert.0:3", "w_insert.1:6", "w_extract.0:6"] + [f"{e}.{k}:18" for e in ("h_heap_insert", "h_heap_extract") for k in range(4)])
    return [H(name=f"C15.heap_insert.int{hn}", file="harness/c15_heap_int.c", entry="h_heap_insert", funcs=["heap_insert"], kind="bounded", bound=f"integer-keyed heaps of up to {hn} elements (all shapes, ties allowed)",
              defs=(f"HN={hn}",), unwindset=uw, tiers=tiers, timeout=to, canaries=2, desc="heap_insert keeps the heap order, adds exactly the element, loses nothing"),
            H(name=f"C15.heap_extract.int{hn}", file="harness/c15_heap_int.c", entry="h_heap_extract", funcs=["heap_extract"], kind="bounded", bound=f"integer-keyed heaps of up to {hn} elements (all shapes, ties allowed)",
              defs=(f"HN={hn}",), unwindset=uw, tiers=tiers, timeout=to, canaries=3, desc="heap_extract returns a minimum, keeps the heap order, removes exactly that element")]
HARNESSES = heapint(11, ("quick",), 900) + heapint(14, ("thorough",), 3600) + fam(3, 2, ("quick",)) + fam(4, 3, ("thorough",)) + [
    H(name="C15.insert.interference", file=F, entry="h_insert_interference", enforce=None, funcs=["msg_queue_insert"], defs=("Q_INTERFERENCE", "QPL=0"),
      loops=True, expect_loops=1, kind="proof", unwindset=("mk.0:2", "memcmp.0:9"), timeout=600, canaries=2,
      desc="CAS push under arbitrary interference on the list head (atomics replaced by rely/guarantee stubs, retry loop closed by a loop contract): on return the head is msg and msg->next is the head it replaced; queue index in bounds (lps<=64, threads<=4 for the index arithmetic)"),
]
EXPLANATION = ("msg_queue_extract / msg_queue_time_peek / msg_queue_insert_queued / msg_queue_fini of the real msg_queue.c (with the real "
               "heap.h and array.h macros) are checked on every well-formed queue with at most 4 heap elements and 3 buffered nodes: "
               "nothing lost or duplicated (ghost element), extraction returns a minimum, peek is a lower bound. Bounded, not a proof. "
               "Interleavings of producers with the consumer's swap beyond single-word atomicity, and weak memory, are NOT decided.")
ASSUMPTIONS = ["heap capacity large enough that array_reserve does not reallocate in these harnesses (realloc path covered by the C11 array harness)",
               "single consumer thread per queue; producers only push with the CAS of msg_queue_insert"]
LEVEL_TEXT = ("Bounded contract check of the sequential queue operations on the real code (heap <= 4, buffer <= 3): no loss, no duplication, "
              "minimum extraction, peek lower bound; plus the single-word linearisation step of the CAS push. Concurrency beyond that is not decided.")
LEVEL_NOTE = "Trusted: CBMC, C11 atomics as sequentially consistent single-word operations, no thread interleaving; bounds as stated."
TECHNIQUE = "CBMC harness lemmas with ghost element on the real msg_queue.c/heap.h (bounded unwinding with unwinding assertions)"
DESIGN_REF = "DESIGN.md §4 C15"
