/* C05 - rollback restores the exact state: one-arena checkpoint take / restore (src/mm/buddy/ckpt.c, real text), on a
 * reduced arena geometry substituted by the driver (the DFS tree walk is unwound completely for that geometry). */
#include "verif_harness.h"
#include <string.h>
#include "mm/buddy/buddy.c"
#include "mm/buddy/ckpt.c"
#include "core/intrinsics.h"

uint32_t verif_g, verif_n, verif_x, verif_alloc;
bool verif_g_live_before;
uint8_t verif_g_val_before, verif_root_before, verif_lon_before;
unsigned char verif_byte_before;
#include "contracts/buddy.h"
#include "contracts/ckpt.h"

#ifdef VERIF_NATIVE
void vlogger(enum log_level l, char *f, unsigned n, const char *fmt, ...) { (void)l; (void)f; (void)n; (void)fmt; }
#define NATIVE_ASSUME(c) VASSUME(c)
#else
#define NATIVE_ASSUME(c) ((void)0)
#endif

#ifndef VERIF_NATIVE
/* VERIF_STUB memcpy: exact byte-wise copy loop (CBMC's built-in model of memcpy with a symbolic length is what
 * exhausts memory; this one is semantically the same for non-overlapping buffers and keeps the pointer checks) */
void *memcpy(void *dst, const void *src, size_t n)
{
	for(size_t i = 0; i < n; i++)
		((unsigned char *)dst)[i] = ((const unsigned char *)src)[i];
	return dst;
}
#endif

#define NLON (1U << (B_TOTAL_EXP - B_BLOCK_EXP + 1))
static struct buddy_state B, B2;
static unsigned char ckbuf[sizeof(struct buddy_checkpoint) + B_TOTAL + 16];

#define ARENA_SETUP()                                                                                                  \
	VIN_ARR(uint8_t, in_longest, NLON);                                                                            \
	VIN_ARR(unsigned char, in_mem, B_TOTAL);                                                                       \
	for(uint32_t k_ = 0; k_ < NLON; k_++)                                                                          \
		B.longest[k_] = in_longest[k_];                                                                        \
	for(uint32_t k_ = 0; k_ < B_TOTAL; k_++)                                                                       \
		B.base_mem[k_] = in_mem[k_];                                                                           \
	VIN(uint32_t, in_g);                                                                                           \
	VIN(uint32_t, in_n);                                                                                           \
	VIN(uint32_t, in_x);                                                                                           \
	verif_g = in_g;                                                                                                \
	verif_n = in_n;                                                                                                \
	verif_x = in_x;                                                                                                \
	VASSUME(verif_g < B_NODES && verif_n < B_NODES && verif_x < B_TOTAL);                                          \
	NATIVE_ASSUME(b_wf(&B))

void h_take(void)
{
	ARENA_SETUP();
	struct buddy_checkpoint *ck = (struct buddy_checkpoint *)ckbuf;
	verif_alloc = b_alloc_bytes(B.longest);
	struct buddy_checkpoint *end = checkpoint_full_take(&B, ck);
	VASSERT((char *)end == (char *)ck + CK_HDR + b_alloc_bytes(B.longest), "C05.take returns header + live bytes (what full_ckpt_size accounts for)");
	VCANARY("h_take reachable");
}

/* round trip on the real take + restore: clobber the arena arbitrarily in between */
void h_round_trip(void)
{
	ARENA_SETUP();
	VASSUME(b_wf(&B));
	VIN_ARR(uint8_t, junk_longest, NLON);
	VIN_ARR(unsigned char, junk_mem, B_TOTAL);
	struct buddy_checkpoint *ck = (struct buddy_checkpoint *)ckbuf;
	struct buddy_checkpoint *end = checkpoint_full_take(&B, ck);
	uint8_t lon_g = B.longest[verif_g];
	unsigned char byte_x = B.base_mem[verif_x];
	bool x_live = b_live(B.longest, verif_n) && b_off(verif_n) <= verif_x && verif_x < b_off(verif_n) + (1U << b_lev(verif_n));
	/* undone events allocate, free and write */
	for(uint32_t k = 0; k < NLON; k++)
		B.longest[k] = junk_longest[k];
	for(uint32_t k = 0; k < B_TOTAL; k++)
		B.base_mem[k] = junk_mem[k];
	const struct buddy_checkpoint *rend = checkpoint_full_restore(&B, ck);
	VASSERT((const void *)rend == (const void *)end, "C05.roundtrip restore consumes exactly what take produced");
	VASSERT(B.longest[verif_g] == lon_g, "C05.roundtrip the set of live blocks (allocation tree) is restored exactly");
	VASSERT(!x_live || B.base_mem[verif_x] == byte_x, "C05.roundtrip every byte of every live block is restored");
	VCANARY("h_round_trip reachable");
	VCOVER(x_live && junk_mem[verif_x] != byte_x && b_lev(verif_n) > B_BLOCK_EXP, "h_round_trip covers a clobbered byte of an inner-node block");
}

void h_restore(void)
{
	ARENA_SETUP();
	VIN(bool, same);
	struct buddy_checkpoint *ck = (struct buddy_checkpoint *)ckbuf;
	VIN_ARR(uint8_t, ck_longest, NLON);
	VIN_ARR(unsigned char, ck_mem, B_TOTAL);
	for(uint32_t k = 0; k < NLON; k++)
		ck->longest[k] = ck_longest[k];
	for(uint32_t k = 0; k < B_TOTAL; k++)
		ck->base_mem[k] = ck_mem[k];
	ck->orig = same ? &B : &B2;
	NATIVE_ASSUME(!same || b_wf_lon(ck->longest));
	verif_lon_before = B.longest[verif_g];
	verif_byte_before = B.base_mem[verif_x];
	const struct buddy_checkpoint *r = checkpoint_full_restore(&B, ck);
	VASSERT(same || (r == NULL && B.longest[verif_g] == verif_lon_before && B.base_mem[verif_x] == verif_byte_before),
	    "C05.restore a record of another arena is refused and nothing is touched");
	VCANARY("h_restore reachable");
	VCOVER(!same, "h_restore covers the foreign-arena record");
}
