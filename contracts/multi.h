/* contracts/multi.h - contracts of the per-LP multi-arena allocator state (src/mm/buddy/multi.c; C05, C11, C12, C13).
 * Included after the real multi.c.
 *
 * Log table view: self->logs is a dyn_array of (ref_i, c): ref_i = length of the LP's history when checkpoint c was
 * taken. LOGS_SHAPE: count >= 1, count <= capacity, items readable/writable for capacity entries.
 * Ghost index verif_g (an arbitrary OLD slot) with its old content in verif_old_ref_g / verif_old_c_g: a clause proved
 * for it holds for every slot. verif_free_calls counts releases (VERIF_STUB free). */
#ifndef VERIF_CONTRACT_MULTI_H
#define VERIF_CONTRACT_MULTI_H

extern array_count_t verif_g;
extern array_count_t verif_old_ref_g;
extern struct mm_checkpoint *verif_old_c_g;
extern array_count_t verif_old_count;
extern unsigned verif_free_calls, verif_freed_g;
#ifdef C13_BOUNDED
static void *verif_released[16];
#endif

#define LOGS_SHAPE(self)                                                                                               \
	((self)->logs.count >= 1 && (self)->logs.count <= (self)->logs.capacity && (self)->logs.items != NULL &&        \
	    __CPROVER_rw_ok((self)->logs.items, (size_t)(self)->logs.capacity * sizeof(struct mm_log)))
#define LOGS_GHOST_BOUND(self)                                                                                         \
	(verif_old_count == (self)->logs.count && verif_g < verif_old_count &&                                        \
	    verif_old_ref_g == (self)->logs.items[verif_g].ref_i && verif_old_c_g == (self)->logs.items[verif_g].c)
/* number of dropped slots */
#define LOGS_M(self) (verif_old_count - (self)->logs.count)

array_count_t model_allocator_fossil_lp_collect(struct mm_state *self, array_count_t tgt_ref_i)
__CPROVER_requires(__CPROVER_rw_ok(self, sizeof(*self)))
__CPROVER_requires(LOGS_SHAPE(self))
/* a checkpoint not after the committed frontier exists (the one taken at LP_INIT has ref_i rebased to 0) */
__CPROVER_requires(self->logs.items[0].ref_i <= tgt_ref_i)
__CPROVER_requires(LOGS_GHOST_BOUND(self) && verif_free_calls == 0 && verif_freed_g == 0)
/* frame: the log table (and the released checkpoints); arenas and full_ckpt_size are not touched */
__CPROVER_assigns(self->logs.count, __CPROVER_object_whole(self->logs.items), verif_free_calls, verif_freed_g
#ifdef C13_BOUNDED
	, __CPROVER_object_whole(verif_released)
#endif
	)
/* at least one checkpoint is kept */
__CPROVER_ensures(self->logs.count >= 1 && self->logs.count <= verif_old_count)
/* the returned reference is that of the first kept slot, and it is not after the frontier */
__CPROVER_ensures(__CPROVER_return_value <= tgt_ref_i)
__CPROVER_ensures(verif_g == LOGS_M(self) ==> __CPROVER_return_value == verif_old_ref_g)
/* ... and it is the NEWEST such checkpoint: every later slot is after the frontier */
__CPROVER_ensures(verif_g > LOGS_M(self) ==> verif_old_ref_g > tgt_ref_i)
/* kept slots are the old slots shifted down and rebased by the returned reference (so slot 0 has ref_i 0) */
__CPROVER_ensures(verif_g >= LOGS_M(self) ==>
	(self->logs.items[verif_g - LOGS_M(self)].c == verif_old_c_g &&
	 self->logs.items[verif_g - LOGS_M(self)].ref_i == verif_old_ref_g - __CPROVER_return_value))
/* exactly the dropped checkpoints are released: one release per dropped slot, none for a kept slot */
#ifndef C13_BOUNDED
__CPROVER_ensures(verif_free_calls == LOGS_M(self))
#endif
;


#endif
